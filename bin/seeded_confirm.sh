#!/bin/bash
# developer aid: confirm a sub-agent's seeded change in its scratch worktree (tests pass, demo fails with / passes without),
# then store it under /verif/seeded/<name>/.   usage: seeded_confirm.sh <worktree> <outdir> <name>
set -u
wt=$1; out=$2; name=$3
cd "$wt" || exit 2
git diff > /tmp/confirm_patch.diff
[ -s /tmp/confirm_patch.diff ] || { echo "no change applied in $wt"; exit 2; }
t=$(cargo test --offline 2>&1 | grep -E "^test result" | head -2 | tr '\n' ' ')
echo "tests with change: $t"
demo=$out/demo
[ -f "$demo/Cargo.lock" ] || cp /repo/Cargo.lock "$demo/" 2>/dev/null
( cd "$demo" && cargo run --offline --release -q >/tmp/confirm_with.log 2>&1; echo "demo with change: exit $?"; tail -3 /tmp/confirm_with.log | cut -c1-300 )
git diff > /tmp/confirm_toggle.diff; git apply -R /tmp/confirm_toggle.diff
( cd "$demo" && cargo run --offline --release -q >/tmp/confirm_without.log 2>&1; echo "demo without change: exit $?"; tail -2 /tmp/confirm_without.log | cut -c1-200 )
git apply /tmp/confirm_toggle.diff
rm -rf "$demo/target"
d=/verif/seeded/$name; mkdir -p "$d"
cp /tmp/confirm_patch.diff "$d/patch.diff"; cp "$out/demo.rs" "$d/demo.rs" 2>/dev/null || cp "$demo/src/main.rs" "$d/demo.rs"
cp "$out/meta.json" "$d/agent_meta.json" 2>/dev/null
echo "stored in $d"
