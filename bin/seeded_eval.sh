#!/bin/bash
# developer aid: apply a seeded change to /repo, run one or more checks, undo it straight afterwards
# usage: seeded_eval.sh <seeded-name> <Cxx> [Cyy ...]
set -u
name=$1; shift
p=/verif/seeded/$name/patch.diff
git -C /repo status --short | grep -q . && { echo "/repo not clean"; exit 2; }
git -C /repo apply "$p" || { echo "patch does not apply"; exit 2; }
for c in "$@"; do
  echo "--- $name vs $c"
  /verif/bin/check "$c" quick 2>&1 | grep -E "VIOLATION|clause=|quick:|INCONCLUSIVE|KNOWN" | cut -c1-330 | head -${LINES_MAX:-6}
done
git -C /repo checkout -- .
git -C /repo status --short | head -2
