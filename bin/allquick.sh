#!/bin/bash
# developer aid: run every quick check at the given seeds; prints one line per check, lists anything that is not silent
# usage: bin/allquick.sh [seed ...]      (default seed 1)
cd /verif
bad=0
for seed in "${@:-1}"; do
  for p in C01 C02 C03 C04 C05 C06 C07 C08 C09 C10 C11 C12 C13 C14 C15 C16 C17 C18; do
    s=$(date +%s)
    out=$(VERIF_SEED=$seed bin/check $p quick 2>&1); rc=$?
    e=$(date +%s)
    line=$(echo "$out" | grep -E "quick:" | cut -c1-200)
    echo "seed=$seed [$((e-s))s] rc=$rc $line"
    if [ $rc -ne 0 ]; then bad=1; echo "$out" | grep -E "VIOLATION|INCONCLUSIVE|clause" | cut -c1-300 | head -6; fi
  done
done
exit $bad
