#!/usr/bin/env python3
"""Render /verif/MANIFEST.json from bin/plan.py (PLANS + META)."""
import json, os, sys
VERIF = os.path.dirname(os.path.dirname(os.path.abspath(__file__)))
sys.path.insert(0, os.path.join(VERIF, "bin"))
from plan import PLANS, META
props = [json.loads(l) for l in open(os.path.join(VERIF, "properties.jsonl"))]
hooks_commits = []
checks, na = [], []
for p in props:
    pid = p["id"]
    if pid in PLANS and pid in META:
        m = META[pid]
        checks.append({
            "property_id": pid,
            "quick_cmd": "bin/check %s quick" % pid,
            "thorough_cmd": "bin/check %s thorough" % pid,
            "evidence_file": "/verif/evidence/%s.json" % pid,
            "replay_cmd_template": "bin/check replay {path}",
            "engine": "rvmon",
            "level_claimed": {"category": "exploration", "text": m["text"], "design_ref": "DESIGN.md section " + m["design"]},
            "level_note": m["note"],
            "technique": m["technique"],
        })
    else:
        na.append({"property_id": pid, "reason": "check not yet built (work in progress; see DESIGN.md section 5)"})
man = {
    "version": 1,
    "setup_cmd": "bin/check setup",
    "hooks": {
        "guard": "rubato_verif",
        "enable": "no source hooks are needed: every refuting event is visible at the public API, through a caller-supplied SincInterpolator, "
                  "through the global allocator or to a sanitizer; the cfg name is reserved (RUSTFLAGS='--cfg rubato_verif')",
        "baseline_off_cmd": "cd /repo && cargo test --workspace --no-fail-fast --offline",
        "source_commits": hooks_commits,
        "add_only": True,
    },
    "engines": [{"name": "rvmon", "path": "/verif/harness", "serves_properties": [c["property_id"] for c in checks],
                 "kind_free_text": "Rust harness (path dependency on /repo) with one monitor per property, built in release / debug-assertion / "
                                   "ASan / TSan / Miri variants and driven by the python runner bin/check"}],
    "checks": checks,
    "notes": "Runtime monitoring and sanitizers only. Known findings: /verif/known_findings.json. Design: /verif/DESIGN.md.",
    "not_applicable": na,
}
json.dump(man, open(os.path.join(VERIF, "MANIFEST.json"), "w"), indent=1)
print("MANIFEST.json: %d checks, %d not_applicable" % (len(checks), len(na)))
