#!/bin/bash
# developer aid (round 5, "sweep"): confirm up to three independent mutants delivered by one sub-agent.
# usage: seeded_confirm_multi.sh <Cxx> [round-letter, default e]     (worktree /tmp/wt/Cxx, deliverables /tmp/wt/Cxx-out: mK.diff, demo/src/bin/mK.rs, meta.json)
# A mutant is stored as /verif/seeded/Cxx-<letter>K/ only if the 96+2 tests pass with it, its demo fails with it and passes without it.
set -u
p=$1; rl=${2:-e}; wt=/tmp/wt/$p; out=/tmp/wt/$p-out; demo=$out/demo
cd "$wt" || exit 2
git checkout -q -- . ; git status --short | grep -q . && { echo "$wt not clean"; exit 2; }
[ -f "$demo/Cargo.lock" ] || cp /repo/Cargo.lock "$demo/" 2>/dev/null
for k in 1 2 3; do
  [ -s "$out/m$k.diff" ] || continue
  [ -f "$demo/src/bin/m$k.rs" ] || { echo "$p m$k: no demo"; continue; }
  ( cd "$demo" && cargo run --offline --release -q --bin m$k >/tmp/cm_without.log 2>&1 ); rc0=$?
  git apply "$out/m$k.diff" || { echo "$p m$k: patch does not apply"; continue; }
  t=$(cargo test --offline 2>&1 | grep -E "^test result" | head -2 | tr '\n' ' ')
  ( cd "$demo" && cargo run --offline --release -q --bin m$k >/tmp/cm_with.log 2>&1 ); rc1=$?
  git diff > /tmp/cm_patch.diff
  git checkout -q -- .
  okt=0; echo "$t" | grep -q "96 passed; 0 failed" && okt=1
  echo "$p m$k: tests_ok=$okt demo_without=$rc0 demo_with=$rc1 :: $(tail -1 /tmp/cm_with.log | cut -c1-160)"
  if [ $okt = 1 ] && [ $rc0 = 0 ] && [ $rc1 != 0 ]; then
    d=/verif/seeded/$p-$rl$k; mkdir -p "$d"
    cp /tmp/cm_patch.diff "$d/patch.diff"; cp "$demo/src/bin/m$k.rs" "$d/demo.rs"
    # demos that share helper files (src/lib.rs, include!d harness): keep them next to demo.rs
    for f in "$demo"/src/*.rs; do [ -f "$f" ] && cp "$f" "$d/demo_support_$(basename "$f")"; done
    python3 - "$out/meta.json" m$k "$d/agent_meta.json" <<'PY'
import json,sys
try:
    m=json.load(open(sys.argv[1])); e=[x for x in m.get("mutants",[]) if x.get("id")==sys.argv[2]]
    json.dump(e[0] if e else {}, open(sys.argv[3],"w"))
except Exception as ex:
    json.dump({}, open(sys.argv[3],"w"))
PY
    echo "  stored in $d"
  else
    echo "  NOT stored"
  fi
done
rm -rf "$demo/target"
