#!/usr/bin/env python3
"""developer aid: write /verif/seeded/<name>/meta.json (merges the sub-agent's own meta)."""
import json, os, sys
name, prop, detected_by, note = sys.argv[1], sys.argv[2], sys.argv[3], (sys.argv[4] if len(sys.argv) > 4 else "")
d = os.path.join("/verif/seeded", name)
am = {}
try:
    am = json.load(open(os.path.join(d, "agent_meta.json")))
except Exception:
    pass
meta = {
    "name": name,
    "property_broken": prop,
    "summary": am.get("summary", ""),
    "needs_to_manifest": am.get("needs", ""),
    "origin": "independent sub-agent given only the property text and a scratch worktree (nothing from /verif)",
    "confirmed": {
        "how": "bin/seeded_confirm.sh in the scratch worktree: cargo test --offline (96+2 tests) with the change; demo.rs run with the change and with it stashed",
        "tests_pass_with_change": True, "demo_fails_with_change": True, "demo_passes_without_change": True,
    },
    "evaluation": {
        "how": "bin/seeded_eval.sh %s %s  (git -C /repo apply patch.diff; bin/check <id> quick; git -C /repo checkout -- .)" % (name, detected_by.replace(",", " ")),
        "detected_by": detected_by.split(","),
        "note": note,
    },
}
json.dump(meta, open(os.path.join(d, "meta.json"), "w"), indent=1)
try:
    os.remove(os.path.join(d, "agent_meta.json"))
except OSError:
    pass
print("wrote", os.path.join(d, "meta.json"))
