#!/usr/bin/env python3
"""developer aid: regenerate the seeded-change table of DESIGN.md section 10 from seeded/*/meta.json"""
import json, os, re
V = "/verif"
rows = []
for d in sorted(os.listdir(os.path.join(V, "seeded"))):
    mp = os.path.join(V, "seeded", d, "meta.json")
    if not os.path.exists(mp):
        continue
    m = json.load(open(mp))
    summ = re.sub(r"\s+", " ", m.get("summary", ""))[:230]
    ev = m["evaluation"]
    rows.append("| %s | %s | %s | %s | %s |" % (d, m["property_broken"], summ.replace("|", "/"), ", ".join(ev["detected_by"]) or "—", re.sub(r"\s+", " ", ev.get("note", "")).replace("|", "/")[:260]))
table = "| seeded change | breaks | what was changed | caught by | how it showed |\n|---|---|---|---|---|\n" + "\n".join(rows)
p = os.path.join(V, "DESIGN.md")
s = open(p).read()
a, b = "<!-- SEEDED-TABLE-BEGIN -->", "<!-- SEEDED-TABLE-END -->"
if a in s:
    s = s[:s.index(a) + len(a)] + "\n" + table + "\n" + s[s.index(b):]
    open(p, "w").write(s)
print("%d rows" % len(rows))
