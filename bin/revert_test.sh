#!/bin/bash
# developer aid: revert one fix commit of /repo in the working tree, run a check, restore the tree
# usage: bin/revert_test.sh <grep pattern of the commit subject> <Cxx> [tier]
set -u
c=$(git -C /repo log --format='%h %s' | grep -- "$1" | head -1 | cut -d' ' -f1)
[ -z "$c" ] && { echo "no commit matches $1"; exit 2; }
if ! git -C /repo revert -n "$c" >/dev/null 2>&1; then echo "revert of $c conflicts"; git -C /repo revert --abort 2>/dev/null; git -C /repo reset -q --hard HEAD; exit 3; fi
echo "== reverted $c ($(git -C /repo log -1 --format=%s $c)); running $2"
/verif/bin/check "$2" "${3:-quick}" 2>&1 | cut -c1-420 | tail -8
git -C /repo reset -q --hard HEAD
git -C /repo status --short | head -3
