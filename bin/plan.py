"""Per-property plans: which monitor runs in which build variant, with which budget.

A stage is {variant, monitor, profile?, cases:{quick,thorough}, tiers?, death_prop?, floor?, timeout?}.
`death_prop`: property a worker death (abort, sanitizer report) in this stage is attributed to.
"""

def st(variant, monitor, quick, thorough, **kw):
    d = {"variant": variant, "monitor": monitor, "cases": {"quick": quick, "thorough": thorough}}
    d.update(kw)
    return d

PLANS = {
    "C03": {"stages": [
        st("chk", "hist", 100000, 2000000, death_prop="C03", floor={"process_calls": 50000}),
        st("chk", "d13", 16, 16, death_prop="C03", max_shards=4),
        st("asan", "hist", 30000, 400000, death_prop="C03", reseed=True),
        st("miri", "hist", 96, 960, profile="tiny", death_prop="C03", reseed=True, timeout={"quick": 900, "thorough": 7200}),
        st("miri-sse", "hist", 32, 320, profile="tiny", death_prop="C03", reseed=True, tiers=["thorough"], timeout={"thorough": 7200}),
        st("miri-avx", "hist", 32, 320, profile="tiny", death_prop="C03", reseed=True, tiers=["thorough"], timeout={"thorough": 7200},
           env={"RVMON_NO_FFT": "1"}),
        st("vg", "hist", 64, 1600, profile="small", death_prop="C03", reseed=True, tiers=["thorough"], timeout={"thorough": 7200}),
    ]},
    "C04": {"stages": [
        st("chk", "hist", 100000, 1500000, death_prop="C03", floor={"process_calls": 50000}),
        st("rel", "hist", 100000, 1500000, death_prop="C03", reseed=True),
    ]},
    "C09": {"stages": [
        st("rel", "hist", 150000, 3000000, death_prop="C03", floor={"process_calls": 40000}),
        # failing calls: the error path of process_into_buffer must be allocation-free as well
        st("rel", "bad", 30000, 400000, death_prop="C03", reseed=True, floor={"malformed_calls": 30000}),
    ]},
}

RULES = {
    "C03": "cases = seeded random (configuration, call history) pairs from the hostile generators of DESIGN.md section 3, "
           "executed in the debug-assertion/overflow-check build, under AddressSanitizer and under Miri; a case is non-trivial "
           "when it made at least one processing call; distinct = distinct (sample type, configuration class, history shape) tuples",
    "C04": "same generator as C03; every call is bracketed by getter reads and sentinel/poison scans; distinct = distinct "
           "(sample type, configuration class, history shape) tuples",
    "C09": "same generator as C03 in the release build with default features (log off); allocator events are counted on the "
           "calling thread while armed around process_into_buffer, the setters, reset and the getters; second stage: malformed "
           "process_into_buffer calls (every shape of C13) injected into valid histories, armed the same way",
}

ASSUMPTIONS = {
    "*": [
        "domain: chunk >= 1, sub_chunks >= 1 (also larger than the chunk size), channels >= 1, sinc_len >= 8, oversampling >= 1 "
        "(>= 2 for Cubic/Quadratic: oversampling 1 is the open known finding D13), finite positive ratios, sizes < 2^20",
        "x86_64 only: the aarch64/NEON kernels are never compiled here",
        "sampling, not proof: verdicts are 'held on the executions observed'",
    ],
    "C03": ["red-zone sanitizers can miss far/intra-object overflows; the precondition-check build and Miri do not have that blind spot but Miri only sees small configurations"],
    "C09": ["only the calling thread is observed; the allocating convenience wrappers (process, process_partial*) are outside the property"],
}

# ------------------------------------------------------------------------------------------
# MANIFEST metadata (bin/mkmanifest.py renders MANIFEST.json from this)

META = {
    "C03": dict(
        technique="runtime monitoring: seeded hostile call histories under std unsafe-precondition/overflow checks, AddressSanitizer, Miri (3 CPU-feature configs) and valgrind memcheck; per-call Ok/abort oracle",
        text="Exploration. Every valid call history drawn by the hostile generators (ratio steps/ramps over the whole permitted interval, "
             "chunk-size changes, partial/flush calls, resets, masks, 1-frame chunks) is executed against the real code in four instrumented "
             "builds; a panic, abort, sanitizer/Miri report, hang or Err on a valid call refutes the property. Held = no such event on the "
             "histories observed (counts in the evidence); not a proof.",
        note="Trusts the sanitizers' detection model (red zones: ASan/memcheck; full interpreter: Miri on tiny configurations), the harness' "
             "reference model of which calls are valid, and x86_64 only (NEON unreachable).",
        design="5/C03"),
    "C04": dict(
        technique="runtime monitoring: getter reads bracketing every call + NaN-sentinel output buffers + NaN-poisoned input slack, over seeded hostile histories",
        text="Exploration. Around every processing call of every generated history the monitor reads the four frame-count getters, supplies "
             "exactly input_frames_next() frames followed by poison, pre-fills the output with sentinels, and compares returned counts, "
             "written high-water mark and getter relations; the *_frames_max() getters are treated as lifetime bounds (smallest value ever returned vs every later *_frames_next()) and the *_buffer_allocate buffers are re-obtained at arbitrary points of the history and must stay sufficient.",
        note="Trusts the harness' notion of a valid history; NaN sentinels/poison can only be confused with data if the resampler itself produced that exact NaN payload.",
        design="5/C04"),
    "C09": dict(
        technique="runtime monitoring: counting #[global_allocator] armed on the calling thread around each real-time call, over seeded hostile histories",
        text="Exploration. A counting global allocator is armed immediately before and disarmed immediately after every process_into_buffer, "
             "setter, reset and getter call of every generated history (release build, default features, log off); any alloc/realloc/dealloc "
             "event on the calling thread refutes the property.",
        note="Observes the calling thread only; caller-owned buffers are allocated outside the armed window.",
        design="5/C09"),
}

PLANS.update({
    "C10": {"stages": [st("rel", "reset", 40000, 600000, death_prop="C03", floor={"compared_steps": 50000})]},
    "C11": {"stages": [st("rel", "chan", 80000, 1000000, death_prop="C03", floor={"compared_steps": 50000})]},
    "C12": {"stages": [st("rel", "set", 200000, 3000000, death_prop="C03", floor={"set_ratio_calls": 100000, "exact_bound_calls": 10000})]},
    "C13": {"stages": [st("chk", "bad", 40000, 600000, death_prop="C13", floor={"malformed_calls": 50000})]},
    "C16": {"stages": [st("rel", "wrap", 100000, 1500000, death_prop="C03", floor={"compared_steps": 50000})]},
    "C17": {"stages": [st("rel", "prec", 60000, 800000, death_prop="C03", floor={"compared_steps": 50000})]},
})
RULES.update({
    "C10": "case = (configuration, dirtying history incl. pending ramps / reduced chunk size / masks / malformed calls, reset, random continuation); "
           "the reset instance and a freshly constructed twin are driven in lock-step with the same continuation and compared bit-for-bit "
           "(outputs, counts, all getters); distinct = distinct (sample type, configuration class, pre-shape, post-shape)",
    "C11": "case = (configuration with 1..8 channels, history); either an n-channel instance against n single-channel twins on per-channel "
           "distinct signals, or a constant-mask run against an unmasked twin (inactive channels passed as empty slices at random), compared bit-for-bit; "
           "40% of the masked twins drop the mask mid-history (every channel must then be written at once and, two filter lengths later, equal the never-masked twin); sentinel scan of inactive output channels; distinct = (sample type, configuration class, channels, twin kind, history shape)",
    "C12": "case = configuration + script of 10..60 setter calls (exact bounds, 1..5-ulp neighbours inside and outside, interior, exterior, NaN/inf/0/negative/subnormal; "
           "chunk sizes 0,1,max,max+1,usize::MAX,random) interleaved with processing calls on the instance and on a twin that only sees the accepted calls; "
           "10% of the scripts go through Box<dyn VecResampler>; reset() on both twins is one of the scripted calls; trivial = none; distinct = (sample type, configuration class, script id mod 64)",
    "C13": "case = valid history with 1..6 malformed calls (too few/many input or output channels, one active channel short by 1..all, mask too short/long, "
           "also through process(), process_partial and process_partial_into_buffer) inserted at random points, lock-step twin without them; case 0 = constructor table (all seven types x f32/f64 x new / new_with_interpolator); trivial = no malformed shape was applicable "
           "(e.g. zero-length requirement); distinct = (sample type, configuration class, history shape, malformed shapes)",
    "C16": "case = wrapper-heavy history (process(), process_partial(_into_buffer)(Some|None), flush tails) against a twin that only uses process_into_buffer "
           "on explicitly zero-padded input, or Box<dyn VecResampler> against direct calls; bit-exact comparison of outputs, counts and getters per call; a panic on one side only is a violation",
    "C17": "case = (configuration, history) run on an f32 and an f64 instance with the same (f32-rounded) input; getters and returned counts compared at every step, "
           "values against K*eps32*peak, plus least-squares gain and shape residual; 15% of the cases use large sinc tables (L*N up to 3e5)",
})
META.update({
    "C10": dict(technique="runtime monitoring: lock-step differential twin (reset instance vs fresh instance), bit-exact comparison of outputs, counts and getters",
                text="Exploration. After a random dirtying history and reset(), the instance and a newly constructed twin are driven with the same random continuation; any bit of difference in outputs, returned counts or getters refutes the property.",
                note="Equality is between two executions of the same code, so no numeric tolerance is involved; histories that hit a C03 event are counted as inconclusive.", design="5/C10"),
    "C11": dict(technique="runtime monitoring: differential twins (n-channel vs n single-channel; masked vs unmasked) + sentinel scan of inactive outputs",
                text="Exploration. Per-channel bit-exact comparison against single-channel twins, and constant-mask runs against unmasked twins with sentinel-filled inactive outputs.",
                note="Bit-exact: all instances execute the same arithmetic.", design="5/C11"),
    "C12": dict(technique="runtime monitoring: reference model of the documented intervals as oracle over hostile setter arguments + twin that never sees rejected calls",
                text="Exploration. Every setter call is judged against the documented interval computed in f64 as a caller would; a 2-ulp band outside each bound is indeterminate; rejected calls must return the documented error with the right fields and leave no trace (getters, twin).",
                note="The oracle demands acceptance of the computed bounds original/max and original*max themselves.", design="5/C12"),
    "C13": dict(technique="runtime monitoring: fault injection of malformed calls into valid histories (debug-assertion build), error-variant oracle, sentinels, lock-step twin",
                text="Exploration. Malformed processing calls of every shape are injected at random points; each must return the matching ResampleError with expected/actual fields, not panic, not write a single output frame and leave the instance bit-identical to a twin that never saw it. Constructor table for invalid arguments.",
                note="One malformation per call so that the expected variant is unambiguous; 45% of the malformed calls carry a valid mask with the short channel active (the reported channel index must be the real one).", design="5/C13"),
    "C16": dict(technique="runtime monitoring: lock-step differential twin (convenience wrappers / boxed trait object vs core call on zero-padded input), bit-exact",
                text="Exploration. process(), process_partial(_into_buffer) with Some(shorter)/None and the VecResampler trait object are compared call by call with process_into_buffer on explicitly zero-padded input.",
                note="Bit-exact comparison of two executions of the same arithmetic; partial inputs with per-channel different lengths and masked flush calls included.", design="5/C16"),
    "C17": dict(technique="runtime monitoring: lock-step differential twin f32 vs f64 with rounding-bound oracle and control-decision equality",
                text="Exploration. The f32 and f64 instantiations run the same histories; every getter and returned count must agree at every step and every f32 output value must equal the rounded f64 value within K*eps32*peak (K = 16+L/2 sinc, 32 polynomial, 64+16*log2(FFT) FFT); least-squares gain within 32+L/8 eps32.",
                note="K is a guard-banded figure: measured worst 11.6 (sinc), 3.3 (polynomial), 31 (FFT) eps32*peak on the repaired tree.", design="5/C17"),
})

PLANS.update({
    "C05": {"stages": [st("rel", "chunk", 16000, 300000, death_prop="C03", floor={"frames_compared": 1000000})]},
    "C06": {"stages": [st("chk", "warp", 40000, 800000, death_prop="C03", floor={"ramped_chunks": 1000, "spacings_checked": 1000000})]},
    "C07": {"stages": [st("rel", "acct", 12000, 120000, death_prop="C03", floor={"process_calls": 1000000})]},
    "C08": {"stages": [st("rel", "poly", 40000, 600000, death_prop="C03", floor={"frames_checked": 1000000})]},
})
RULES.update({
    "C05": "case = one noise stream (2e3..4e4 input frames, constant ratio, optionally set once before the first call) run through two twins: two chunk sizes, FixedIn vs FixedOut, "
           "a random set_chunk_size schedule vs constant size (sinc), exactly sized buffers vs input slices up to two blocks longer (12%), or two FFT variants/(chunk, sub_chunks) pairs resolving to the same FFT block; "
           "a run that fails while its twin completes is a violation; twin a has had an earlier life + reset() in 10% and a no-op set_resample_ratio_relative(1.0) in 30% of the cases, twin b is always fresh and driven directly; common output prefix compared "
           "to an accumulated-position-rounding bound (FFT: bit-exact); Nearest modes: frames whose quantised instants (from an index-signal run of both twins) differ by one grid step "
           "are excluded and counted; trivial = the twin happened to be identical to the original",
    "C06": "case = (asynchronous configuration, history with 20-50% ratio changes across the whole permitted interval, stepped and ramped, chunk-size changes, resets) fed with the index signal; "
           "every output frame's evaluation instant is read off the output (sinc types: through the probing interpolator) and checked for monotonicity, spacing interval, immediate steps, monotone ramps, "
           "contiguous supplied windows; 10% through Box<dyn VecResampler>; trivial = no spacing could be checked (start-up only)",
    "C07": "case = one constant-ratio stream of up to 3e5 (quick) / 2.5e6 (thorough) calls with allocate-time buffers, 35% of them with chunk size 1..4, optional set_chunk_size schedule, "
           "optional ratio set once, 15% of the adjustable streams with a relative-ratio detour (relative(x1) .. relative(x2), accounting restarts at original*x2), 15% driven through process()/process_partial() "
           "with the returned lengths counted and 32 accounted flush calls, 20% sprinkled with refused setter calls, half of the reset streams staying at the construction ratio; the running totals are checked after every call",
    "C08": "case = polynomial resampler + (polynomial of admissible degree in Chebyshev basis | degree+1 polynomial (sensitivity probe, no verdict) | sinusoid); instants measured by an index-signal twin run; the value run has had an earlier life + reset() in 10% and a no-op set_resample_ratio_relative(1.0) in 30% of the constant-ratio cases",
})
META.update({
    "C05": dict(technique="runtime monitoring: differential twins over whole streams (two chunkings / variants / set_chunk_size schedules), rounding-bound oracle, bit-exact for FFT",
                text="Exploration. The same noise stream is pushed through two instances that differ only in chunking or FixedIn/FixedOut/InOut variant; any lost, duplicated or stale frame changes the stream by O(1) against a tolerance of ~1e-6.",
                note="Tolerance = worst-case accumulated position rounding x largest slope; Nearest-mode decision ambiguities are excluded frame by frame using measured instants, never whole cases.", design="5/C05"),
    "C06": dict(technique="runtime monitoring: index-signal trace (every output value is its own evaluation instant) + probing SincInterpolator + reference model of the ratio schedule, online spacing checker",
                text="Exploration. Output values of the index signal x[n]=n+1 are the evaluation instants; an online checker compares every spacing with [min(1/old,1/new), max(..)], demands strict monotonicity, immediate effect of stepped changes, monotone ramps and contiguous supplied input windows.",
                note="Resolution 1e-9 or 256 ulp of the instant; start-up frames overlapping the zero pre-roll are skipped; partial calls are excluded (zero padding breaks the index signal).", design="5/C06"),
    "C07": dict(technique="runtime monitoring: conservation check (running in/out totals) at every prefix of long constant-ratio streams, exact integer arithmetic for the synchronous types",
                text="Exploration. After every call of streams up to millions of 1-frame chunks |out - r*in| is compared with the property's constant; synchronous types are checked with exact integers, FftFixedInOut block sizes against a gcd computation.",
                note="Zero-valued input (counts do not depend on sample values); 12% marathon streams (chunk 1-3, up to 1.2e6 / 8e6 calls) with a trend clause: the envelope of out - r*in must not shift by more than max(1,r)+1 frames between the first and the last third of the stream.", design="5/C07"),
    "C08": dict(technique="runtime monitoring: polynomial test signals evaluated at measured instants (index-signal twin), classical interpolation bounds for sinusoids",
                text="Exploration. Polynomials of admissible degree must come out as P(instant) within 64-256 eps*max|P|; sinusoids within the classical Lagrange error bound; Nearest must return the sample at or just before the instant (instants measured with the Linear degree of the same variant).",
                note="Instants are measured, not assumed; a uniform shift of all instants is C14's business, not C08's.", design="5/C08"),
})

PLANS.update({
    "C14": {"stages": [st("rel", "delay", 30000, 500000, death_prop="C03", floor={"pulses_measured": 3000})]},
    "C15": {"stages": [
        st("rel", "simd", 8000, 200000, death_prop="C15", floor={"kernel_evaluations": 500000}),
        st("asan", "simd", 3000, 60000, death_prop="C15", reseed=True),
        st("miri-avx", "simd", 32, 480, profile="tiny", death_prop="C15", reseed=True, env={"RVMON_NO_FFT": "1"}, timeout={"quick": 900, "thorough": 7200}),
        st("miri-sse", "simd", 32, 480, profile="tiny", death_prop="C15", reseed=True, tiers=["thorough"], timeout={"thorough": 7200}),
    ]},
    "C18": {"stages": [
        st("rel", "thr", 1600, 40000, death_prop="C18", floor={"calls_executed_concurrently": 5000, "migrations_between_threads": 500}, max_shards=4),
        st("tsan", "thr", 400, 8000, death_prop="C18", reseed=True, max_shards=4, env={"TSAN_OPTIONS": "halt_on_error=1 abort_on_error=0 exitcode=66"}),
        st("miri", "thr", 16, 128, profile="tiny", death_prop="C18", reseed=True, miri_seed_per_shard=True, timeout={"quick": 900, "thorough": 7200}),
    ]},
})
RULES.update({
    "C14": "case = configuration (+ optional ratio set before the first call) + Gaussian pulse at a random input position; the first moment of the whole output stream is compared with n*ratio + output_delay(); "
           "the README recipe is executed literally on the same stream; 12% of the cases read the delay and stream through Box<dyn VecResampler>, 12% on an instance with an earlier life (setters, masked calls) and reset(), 15% of the sinc cases under a set_chunk_size schedule, a no-op set_resample_ratio_relative(1.0) before 30% of the clips; a pulse whose mass is below 5% of the expected one is lost (violation), between 5% and 50% unusable (inconclusive); trivial = none",
    "C15": "75% kernel cases: Scalar/AVX/SSE interpolators from identical parameters, sinc_len swept over every multiple of 8 up to 512, subindices incl. first/last, slice start offsets 0..8, NaN outside the window, "
           "5 waveform styles (dynamic range 1e600 / 1e60, +-0, denormals); 25% stream cases: one resampler per kernel via new_with_interpolator plus the dispatching constructor over a random history; every kernel call is at the highest legal index for its slice, a kernel that panics there (or where another kernel completes) is a violation",
    "C18": "case = 4..24 work items (configuration, history, signal, sample type) executed single-threaded (reference, twice) and then by 2/4/8/16 threads taking instances from a shared pool 1..4 calls at a time; "
           "distinct = distinct (thread count, item count, case) tuples; per-call hashes cover all output bits, counts and getters; a third of the items are sent rejected (malformed) calls between their ops, "
           "a third carry a signal in the subnormal range of their sample type; the calling thread's MXCSR control bits are read before and after every call; every 8th case is a cold start (2-4 fresh child processes whose 8/16 threads, released together, construct and drive 16 instances as the first thing the process does)",
})
META.update({
    "C14": dict(technique="runtime monitoring: first-moment (centroid) measurement of a Gaussian pulse through the real stream vs output_delay(), README recipe executed literally",
                text="Exploration. For random configurations and pulse positions the measured centroid of the output must equal n*ratio + output_delay() within max(1,ratio)+1 frames, and the recipe output must contain the whole pulse unshifted.",
                note="Pulse sigma >= 4/min(1,ratio) input frames so that the non-anti-aliased types pass it; first moments are insensitive to gain.", design="5/C14"),
    "C15": dict(technique="runtime monitoring: direct differential calls of the public Scalar/AVX/SSE kernels against a doubled-precision reference with a sound rounding bound, NaN poisoning outside the window; same workload under ASan and Miri (+avx / +sse3)",
                text="Exploration. Every kernel value must lie within (L/8+8)*eps*sum|w*s| of the exact dot product, return no NaN when only the outside of the window is NaN, and resamplers built on each kernel (and the dispatching constructor) must produce the same stream; over-reads of more than one element are heap OOB for ASan/Miri.",
                note="NEON is not compiled on x86_64 (out of reach). Miri +avx runs with Tree Borrows (the wide-load-through-element-reference idiom is flagged by Stacked Borrows only).", design="5/C15"),
    "C18": dict(technique="runtime monitoring: per-call output hashes of concurrently driven, thread-migrating instances vs a single-threaded reference; thread floating-point control word read around every call; ThreadSanitizer and Miri data-race detection on the same workload",
                text="Exploration. Up to 16 threads construct and drive instances from a shared pool (instances migrate at call boundaries, random yields/spins); every per-call hash must equal the single-threaded reference (also with subnormal-range signals and after rejected calls), no call may leave the calling thread's floating-point control word changed, and neither TSan nor Miri may report a race.",
                note="Schedules are sampled, not enumerated; evidence reports migrations, distinct (instance,thread) pairs and distinct per-instance thread sequences actually observed; every fourth case is a construction storm (4-16 threads constructing 40-120 small configurations at the same time), 60% of the pool cases carry sibling instances differing in one filter parameter; every 8th case starts fresh child processes so that lazily initialised process-wide state (CPU-feature detection) is raced at its first use.", design="5/C18"),
})

PLANS.update({
    "C01": {"stages": [
        st("rel", "ir", 384, 1518, death_prop="C03", floor={"impulse_responses_extracted": 300}),
        st("rel", "band", 12000, 200000, death_prop="C03", floor={"c01_tone_runs": 4000}),
    ]},
    "C02": {"stages": [
        st("rel", "ir", 384, 1518, death_prop="C03", floor={"impulse_responses_extracted": 300}),
        st("rel", "band", 12000, 200000, death_prop="C03", floor={"c02_stopband_runs": 2000}),
    ]},
})
RULES.update({
    "C01": "stage ir: (window, sinc_len) enumerated - quick every 4th multiple of 8 in [32,2048] (offset by the seed), thorough all 253 - with f_cutoff in {cc, 0.7cc, 0.9cc} and construction ratios < 1; the prototype filter is read out of the live "
           "resampler (Nearest mode driven at ratio = oversampling) and checked for symmetry, unit DC gain of every polyphase branch, pass-band ripple and image-band leakage. stage band: random configuration of the five anti-aliased types "
           "(r in [1/16,16], L in [64,512], all windows/interpolations, N up to 2048, FFT blocks in [32,16384]) with 1..4 tones below the pass edge (one at 0.999 of it); least-squares fit of amplitudes, delays and residual on a steady-state segment; "
           "15% of the sinc cases under a set_chunk_size schedule, 12% on an instance with an earlier life + reset(), 6% with input slices up to two blocks longer than required, 30% of the sinc cases with a no-op set_resample_ratio_relative(1.0); "
           "trivial = empty/too narrow pass band or FFT block outside the domain",
    "C02": "stage ir: as for C01, stop-band maximum over [stop edge, N/2] and the -6 dB point. stage band: one stop-band tone (uniform between the stop edge and the input Nyquist) or, when up-sampling, an arbitrary input tone whose fundamental is fitted "
           "and removed; two runs 90 degrees apart, phase-averaged output power against the window's rejection figure - 3.5 dB (two coincident components + 0.5 dB guard) + twice the textbook interpolation bound; trivial = no stop band below the input Nyquist",
})
META.update({
    "C01": dict(technique="runtime monitoring: impulse-response extraction from the live resampler + DFT magnitude checks (layer A); end-to-end multi-tone runs with least-squares tone fit of amplitude, delay and residual (layer B)",
                text="Exploration. Layer A reads the prototype filter the resampler really uses (through the dispatched kernel) and checks linear phase, branch DC gains, pass-band ripple and image leakage for every window over the length grid. Layer B pushes tone mixtures below the pass edge through all five anti-aliased types and compares fitted amplitudes (1% / 0.1%), pairwise delays and the residual with the larger-of(window leakage, 2x textbook interpolation bound) figure, f32 with a single-precision floor.",
                note="The absolute far-stop-band figures are enforced for f_cutoff <= 0.9*calculate_cutoff only (at f_cutoff = cutoff the unchanged Hann prototype reaches -67.9 dB, so there the C02 rejection figure - 3 dB is used); 2 dB guard band on the leakage figures and a 25% guard band on the amplitude tolerances (unchanged Hann prototype: 1.09% right at the pass edge for f_cutoff*min(1,ratio) < 2*(1-cutoff)); FFT blocks restricted to [32, 16384] frames (calculate_cutoff's documented range starts at 32).", design="5/C01"),
    "C02": dict(technique="runtime monitoring: impulse-response extraction + exact stop-band maximum of the live prototype (layer A); phase-averaged stop-band / image power of end-to-end tone runs (layer B)",
                text="Exploration. Layer A: for every window over the length grid the live prototype's response beyond f_cutoff + (1-cutoff)/min(1,ratio) stays below the window's rejection figure and the gain at f_cutoff is 0.5. Layer B: stop-band tones and up-sampling images through the real resamplers, output power averaged over two phases, against figure - 3.5 dB + 2x textbook bound; FFT types -100 dB.",
                note="Per-component / power-sum reading of 'attenuated by' (coherent tone+image at integer ratios reads 6 dB higher); FFT blocks restricted to >= 32 frames.", design="5/C02"),
})

ASSUMPTIONS.update({
    "C01": ["absolute far-stop-band figures enforced for f_cutoff <= 0.9*calculate_cutoff only; 2 dB guard on leakage figures, 25% guard on amplitude tolerances; FFT blocks in [32, 16384] frames"],
    "C02": ["per-component / power-sum reading of the rejection figures (figure - 3.5 dB end-to-end: two coincident components + 0.5 dB guard); FFT blocks >= 32 frames; prototype checks in f64"],
    "C05": ["constant ratio (optionally set once before the first call); tolerance = worst-case accumulated position rounding x largest slope; Nearest-mode frames whose quantised instants differ by one grid step between the twins are excluded and counted"],
    "C06": ["partial/flush calls are not part of these histories (zero padding breaks the index signal); resolution 1e-9 or 256 ulp of the instant; windows reaching past the supplied data with rounding-level weight are counted, not flagged"],
    "C07": ["constant ratio between (non-ramped) changes, accounting restarted at a change with the sum of both constants; zero-valued input (counts do not depend on sample values)"],
    "C12": ["a band of 2 ulp outside each computed bound is indeterminate (either answer accepted)"],
    "C14": ["pulse sigma >= 4/min(1, current ratio, construction ratio) input frames so that the pulse passes the (not rebuilt) anti-aliasing table intact"],
    "C15": ["AVX+FMA and SSE3 available on this CPU; Miri executes the same intrinsics with tree borrows and deterministic floats"],
    "C17": ["K = 16+L/2 (sinc), 32 (polynomial), 64+16*log2(2*FFT block) (FFT); gain clause 32+L/8 resp. K/4"],
    "C18": ["schedules are sampled, not enumerated; ThreadSanitizer and Miri only see the synchronisation and accesses of the executions produced"],
})
