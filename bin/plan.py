"""Per-property plans: which monitor runs in which build variant, with which budget.

A stage is {variant, monitor, profile?, cases:{quick,thorough}, tiers?, death_prop?, floor?, timeout?}.
`death_prop`: property a worker death (abort, sanitizer report) in this stage is attributed to.
"""

def st(variant, monitor, quick, thorough, **kw):
    d = {"variant": variant, "monitor": monitor, "cases": {"quick": quick, "thorough": thorough}}
    d.update(kw)
    return d

PLANS = {
    "C03": {"stages": [
        st("chk", "hist", 16000, 200000, death_prop="C03", floor={"process_calls": 50000}),
        st("asan", "hist", 6000, 60000, death_prop="C03", reseed=True),
        st("miri", "hist", 48, 480, profile="tiny", death_prop="C03", reseed=True, timeout={"quick": 900, "thorough": 7200}),
        st("miri-sse", "hist", 32, 320, profile="tiny", death_prop="C03", reseed=True, tiers=["thorough"], timeout={"thorough": 7200}),
        st("miri-avx", "hist", 32, 320, profile="tiny", death_prop="C03", reseed=True, tiers=["thorough"], timeout={"thorough": 7200},
           env={"RVMON_NO_FFT": "1"}),
        st("vg", "hist", 64, 1600, profile="small", death_prop="C03", reseed=True, tiers=["thorough"], timeout={"thorough": 7200}),
    ]},
    "C04": {"stages": [
        st("chk", "hist", 16000, 160000, death_prop="C03", floor={"process_calls": 50000}),
        st("rel", "hist", 16000, 160000, death_prop="C03", reseed=True),
    ]},
    "C09": {"stages": [
        st("rel", "hist", 12000, 200000, death_prop="C03", floor={"process_calls": 40000}),
    ]},
}

RULES = {
    "C03": "cases = seeded random (configuration, call history) pairs from the hostile generators of DESIGN.md section 3, "
           "executed in the debug-assertion/overflow-check build, under AddressSanitizer and under Miri; a case is non-trivial "
           "when it made at least one processing call; distinct = distinct (sample type, configuration class, history shape) tuples",
    "C04": "same generator as C03; every call is bracketed by getter reads and sentinel/poison scans; distinct = distinct "
           "(sample type, configuration class, history shape) tuples",
    "C09": "same generator as C03 in the release build with default features (log off); allocator events are counted on the "
           "calling thread while armed around process_into_buffer, the setters, reset and the getters",
}

ASSUMPTIONS = {
    "*": [
        "domain: chunk >= 1, sub_chunks >= 1 and <= chunk, channels >= 1, sinc_len >= 8, oversampling >= 1 "
        "(>= 2 for Cubic/Quadratic: oversampling 1 is the open known finding D13), finite positive ratios, sizes < 2^20",
        "x86_64 only: the aarch64/NEON kernels are never compiled here",
        "sampling, not proof: verdicts are 'held on the executions observed'",
    ],
    "C03": ["red-zone sanitizers can miss far/intra-object overflows; the precondition-check build and Miri do not have that blind spot but Miri only sees small configurations"],
    "C09": ["only the calling thread is observed; the allocating convenience wrappers (process, process_partial*) are outside the property"],
}
