"""Per-property plans: which monitor runs in which build variant, with which budget.

A stage is {variant, monitor, profile?, cases:{quick,thorough}, tiers?, death_prop?, floor?, timeout?}.
`death_prop`: property a worker death (abort, sanitizer report) in this stage is attributed to.
"""

def st(variant, monitor, quick, thorough, **kw):
    d = {"variant": variant, "monitor": monitor, "cases": {"quick": quick, "thorough": thorough}}
    d.update(kw)
    return d

PLANS = {
    "C03": {"stages": [
        st("chk", "hist", 100000, 2000000, death_prop="C03", floor={"process_calls": 50000}),
        st("asan", "hist", 30000, 400000, death_prop="C03", reseed=True),
        st("miri", "hist", 96, 960, profile="tiny", death_prop="C03", reseed=True, timeout={"quick": 900, "thorough": 7200}),
        st("miri-sse", "hist", 32, 320, profile="tiny", death_prop="C03", reseed=True, tiers=["thorough"], timeout={"thorough": 7200}),
        st("miri-avx", "hist", 32, 320, profile="tiny", death_prop="C03", reseed=True, tiers=["thorough"], timeout={"thorough": 7200},
           env={"RVMON_NO_FFT": "1"}),
        st("vg", "hist", 64, 1600, profile="small", death_prop="C03", reseed=True, tiers=["thorough"], timeout={"thorough": 7200}),
    ]},
    "C04": {"stages": [
        st("chk", "hist", 100000, 1500000, death_prop="C03", floor={"process_calls": 50000}),
        st("rel", "hist", 100000, 1500000, death_prop="C03", reseed=True),
    ]},
    "C09": {"stages": [
        st("rel", "hist", 150000, 3000000, death_prop="C03", floor={"process_calls": 40000}),
    ]},
}

RULES = {
    "C03": "cases = seeded random (configuration, call history) pairs from the hostile generators of DESIGN.md section 3, "
           "executed in the debug-assertion/overflow-check build, under AddressSanitizer and under Miri; a case is non-trivial "
           "when it made at least one processing call; distinct = distinct (sample type, configuration class, history shape) tuples",
    "C04": "same generator as C03; every call is bracketed by getter reads and sentinel/poison scans; distinct = distinct "
           "(sample type, configuration class, history shape) tuples",
    "C09": "same generator as C03 in the release build with default features (log off); allocator events are counted on the "
           "calling thread while armed around process_into_buffer, the setters, reset and the getters",
}

ASSUMPTIONS = {
    "*": [
        "domain: chunk >= 1, sub_chunks >= 1 and <= chunk, channels >= 1, sinc_len >= 8, oversampling >= 1 "
        "(>= 2 for Cubic/Quadratic: oversampling 1 is the open known finding D13), finite positive ratios, sizes < 2^20",
        "x86_64 only: the aarch64/NEON kernels are never compiled here",
        "sampling, not proof: verdicts are 'held on the executions observed'",
    ],
    "C03": ["red-zone sanitizers can miss far/intra-object overflows; the precondition-check build and Miri do not have that blind spot but Miri only sees small configurations"],
    "C09": ["only the calling thread is observed; the allocating convenience wrappers (process, process_partial*) are outside the property"],
}

# ------------------------------------------------------------------------------------------
# MANIFEST metadata (bin/mkmanifest.py renders MANIFEST.json from this)

META = {
    "C03": dict(
        technique="runtime monitoring: seeded hostile call histories under std unsafe-precondition/overflow checks, AddressSanitizer, Miri (3 CPU-feature configs) and valgrind memcheck; per-call Ok/abort oracle",
        text="Exploration. Every valid call history drawn by the hostile generators (ratio steps/ramps over the whole permitted interval, "
             "chunk-size changes, partial/flush calls, resets, masks, 1-frame chunks) is executed against the real code in four instrumented "
             "builds; a panic, abort, sanitizer/Miri report, hang or Err on a valid call refutes the property. Held = no such event on the "
             "histories observed (counts in the evidence); not a proof.",
        note="Trusts the sanitizers' detection model (red zones: ASan/memcheck; full interpreter: Miri on tiny configurations), the harness' "
             "reference model of which calls are valid, and x86_64 only (NEON unreachable).",
        design="5/C03"),
    "C04": dict(
        technique="runtime monitoring: getter reads bracketing every call + NaN-sentinel output buffers + NaN-poisoned input slack, over seeded hostile histories",
        text="Exploration. Around every processing call of every generated history the monitor reads the four frame-count getters, supplies "
             "exactly input_frames_next() frames followed by poison, pre-fills the output with sentinels, and compares returned counts, "
             "written high-water mark and getter relations; buffers from *_buffer_allocate taken at construction are reused for the whole life.",
        note="Trusts the harness' notion of a valid history; NaN sentinels/poison can only be confused with data if the resampler itself produced that exact NaN payload.",
        design="5/C04"),
    "C09": dict(
        technique="runtime monitoring: counting #[global_allocator] armed on the calling thread around each real-time call, over seeded hostile histories",
        text="Exploration. A counting global allocator is armed immediately before and disarmed immediately after every process_into_buffer, "
             "setter, reset and getter call of every generated history (release build, default features, log off); any alloc/realloc/dealloc "
             "event on the calling thread refutes the property.",
        note="Observes the calling thread only; caller-owned buffers are allocated outside the armed window.",
        design="5/C09"),
}
