//! `hist`: random valid call histories through the per-call monitor (Runner::step).
//! Decides C03 (no panic / abort / Err on valid histories; sanitizer builds run the same
//! workload), C04 (advertised frame counts) and C09 (no heap traffic), and reports the
//! single-call clauses of C11/C16 as side observations.

use crate::cfg::*;
use crate::json::J;
use crate::mon::*;
use crate::run::*;
use crate::sig::Sig;

pub struct Hist;

pub fn profile_by_name(name: &str) -> GenProfile {
    match name {
        "tiny" => GenProfile::tiny(),
        "small" => GenProfile::small(),
        _ => GenProfile::standard(),
    }
}

impl Hist {
    fn case_t<T: Smp>(&self, ctx: &Ctx, idx: u64, st: &mut Stats) -> CaseResult {
        let mut rng = ctx.rng_for(idx);
        let _ = rng.next(); // (sample-type draw already consumed by caller on its own stream)
        let gp = profile_by_name(&ctx.profile);
        let cfg = gen_cfg(&mut rng, &gp);
        let max_ops = if ctx.profile == "tiny" { 10 } else { 40 };
        let mut hp = HistProfile::full(max_ops);
        if rng.chance(0.35) {
            hp.ratio_weight = 0.5; // ratio-change heavy
        }
        let mut ops = gen_history(&mut rng, &cfg, &hp);
        // near-integer mode (power-of-two ratio that can only be nudged by ulps): many calls with
        // occasional ulp-sized ratio flips, so that read positions land within rounding of integers
        if cfg.kind.is_async() && cfg.max_rel < 1.0 + 1e-6 && cfg.max_rel > 1.0 && cfg.ratio.log2().fract() == 0.0 && ctx.profile != "tiny" {
            ops.clear();
            let n = rng.ui(30, 120);
            for k in 0..n {
                if k == 0 || rng.chance(0.08) {
                    let v = *rng.pick(&[cfg.lo(), cfg.hi(), cfg.ratio, crate::rng::next_up(cfg.ratio), crate::rng::next_down(cfg.ratio)]);
                    ops.push(Op::SetRatio { v: v.clamp(cfg.lo(), cfg.hi()), ramp: rng.chance(0.3), rel: false });
                }
                ops.push(Op::Proc { path: Path::Exact, slack_in: 0, slack_out: 0, mask: None, empty_inactive: false });
            }
        }
        let sig_seed = rng.next();
        let desc = J::obj()
            .with("sample", J::s(T::NAME))
            .with("through_boxed_vecresampler", J::b(ctx.sub_seed(idx, 5) % 100 < 8))
            .with("cfg", cfg.json())
            .with("signal", J::s("noise"))
            .with("signal_seed", J::Int(sig_seed as i128))
            .with("ops", ops_json(&ops));
        set_desc(&desc);
        let mut cr = CaseResult { desc, ..Default::default() };
        if ctx.describe {
            return cr;
        }
        // 8 % of the cases drive the instance through the object-safe VecResampler wrapper (its getters and
        // calls must obey the same count clauses); reset / set_chunk_size are not part of that trait
        let boxed = ctx.sub_seed(idx, 5) % 100 < 8;
        let mut run = if boxed {
            match crate::any::AnyRes::<T>::build(&cfg) {
                Ok(r) => Runner::new(&cfg, Box::new(Boxed(r.boxed())), Sig::noise(sig_seed)),
                Err(e) => {
                    cr.viols.push(Viol::new("C03", "constructor_rejected_valid_cfg", format!("{}", e)));
                    return cr;
                }
            }
        } else {
            match Runner::<T>::fresh(&cfg, Sig::noise(sig_seed)) {
                Ok(r) => r,
                Err(e) => {
                    cr.viols.push(Viol::new("C03", "constructor_rejected_valid_cfg", e));
                    return cr;
                }
            }
        };
        if boxed {
            st.add("cases_through_boxed_vecresampler", 1.0);
        }
        let mut frames_in = 0u64;
        let mut frames_out = 0u64;
        for op in &ops {
            if boxed && matches!(op, Op::Reset | Op::SetChunk(_)) {
                continue;
            }
            let so = run.step(op);
            if let Ok((i, o)) = so.res {
                frames_in += i as u64;
                frames_out += o as u64;
            }
            if !run.findings.is_empty() && run.findings.len() >= 8 {
                break;
            }
        }
        st.add("process_calls", run.calls as f64);
        st.add("ops", ops.len() as f64);
        st.add("frames_in", frames_in as f64);
        st.add("frames_out", frames_out as f64);
        st.add(&format!("cases.{}", cfg.kind.name()), 1.0);
        st.add(&format!("cases.{}", T::NAME), 1.0);
        st.add("ratio_changes", ops.iter().filter(|o| matches!(o, Op::SetRatio { .. })).count() as f64);
        st.add("chunk_changes", ops.iter().filter(|o| matches!(o, Op::SetChunk(_))).count() as f64);
        st.add("resets", ops.iter().filter(|o| matches!(o, Op::Reset)).count() as f64);
        st.add("partial_calls", ops.iter().filter(|o| matches!(o, Op::Partial { .. })).count() as f64);
        st.add("masked_calls", ops.iter().filter(|o| matches!(o, Op::Proc { mask: Some(_), .. })).count() as f64);
        for f in &run.findings {
            cr.viols.push(Viol { prop: f.prop.into(), clause: f.clause.into(), detail: f.detail.clone(), step: f.step });
        }
        cr.class = Some(format!("{}|{}|{}", T::NAME, cfg.class(), ops_shape(&ops)));
        cr
    }
}

impl Monitor for Hist {
    fn name(&self) -> &'static str {
        "hist"
    }
    fn budget(&self, ctx: &Ctx) -> u64 {
        match (ctx.tier, ctx.profile.as_str()) {
            (Tier::Quick, "tiny") => 64,
            (Tier::Thorough, "tiny") => 640,
            (Tier::Quick, _) => 20_000,
            (Tier::Thorough, _) => 200_000,
        }
    }
    fn panic_prop(&self) -> Option<&'static str> {
        Some("C03")
    }
    fn case(&self, ctx: &Ctx, idx: u64, st: &mut Stats) -> CaseResult {
        let mut rng = ctx.rng_for(idx);
        if rng.next() & 1 == 0 {
            self.case_t::<f32>(ctx, idx, st)
        } else {
            self.case_t::<f64>(ctx, idx, st)
        }
    }
}

/// `d13`: the one open known finding, exercised on purpose so that the C03 check reports it
/// as KNOWN-FINDING on every run (and would notice if its signature changed).
pub struct D13;

impl Monitor for D13 {
    fn name(&self) -> &'static str {
        "d13"
    }
    fn budget(&self, _ctx: &Ctx) -> u64 {
        16
    }
    fn panic_prop(&self) -> Option<&'static str> {
        Some("C03")
    }
    fn case(&self, ctx: &Ctx, idx: u64, st: &mut Stats) -> CaseResult {
        let mut cfg = Cfg::default();
        cfg.kind = if idx & 1 == 0 { Kind::SincIn } else { Kind::SincOut };
        cfg.interp = if idx & 2 == 0 { Interp::Cubic } else { Interp::Quadratic };
        cfg.oversampling = 1;
        cfg.ratio = if idx & 8 == 0 { 1.37 } else { 0.61 };
        cfg.sinc_len = 32;
        cfg.chunk = 64;
        let f32_ = idx & 4 == 0;
        let ops = vec![Op::Proc { path: Path::Exact, slack_in: 0, slack_out: 0, mask: None, empty_inactive: false }; 4];
        let desc = J::obj().with("sample", J::s(if f32_ { "f32" } else { "f64" })).with("cfg", cfg.json()).with("signal", J::s("noise")).with("ops", ops_json(&ops));
        set_desc(&desc);
        let mut cr = CaseResult { desc, ..Default::default() };
        if ctx.describe {
            return cr;
        }
        st.add("d13_probes", 1.0);
        if f32_ {
            let mut r = Runner::<f32>::fresh(&cfg, Sig::noise(1)).unwrap();
            for op in &ops {
                r.step(op);
            }
        } else {
            let mut r = Runner::<f64>::fresh(&cfg, Sig::noise(1)).unwrap();
            for op in &ops {
                r.step(op);
            }
        }
        cr.class = Some(format!("d13|{}", idx));
        cr
    }
}
