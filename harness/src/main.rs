#![allow(dead_code)]
//! rvmon: runtime monitors for the rubato properties C01..C18.
//!
//! usage: rvmon <monitor> --prop Cxx [--seed S] [--shard i/n] [--tier quick|thorough]
//!              [--cases N] [--only idx] [--profile tiny|small|standard] [--describe]

mod alloc;
mod any;
mod cfg;
mod json;
mod mon;
mod mon_hist;
mod dsp;
mod mon_band;
mod mon_delay;
mod mon_set;
mod mon_simd;
mod mon_thr;
mod mon_stream;
mod mon_warp;
mod probe;
mod mon_twin;
mod rng;
mod run;
mod sig;

#[global_allocator]
static GLOBAL: alloc::Counting = alloc::Counting;

use mon::{Ctx, Monitor, Tier};

fn monitors() -> Vec<Box<dyn Monitor>> {
    vec![
        Box::new(mon_hist::Hist),
        Box::new(mon_hist::D13),
        Box::new(mon_twin::Reset),
        Box::new(mon_twin::Chan),
        Box::new(mon_twin::Malformed),
        Box::new(mon_twin::Wrap),
        Box::new(mon_twin::Prec),
        Box::new(mon_set::Setters),
        Box::new(mon_warp::Warp),
        Box::new(mon_delay::Delay),
        Box::new(mon_band::Ir),
        Box::new(mon_band::Band),
        Box::new(mon_simd::Simd),
        Box::new(mon_thr::Threads),
        Box::new(mon_stream::Chunking),
        Box::new(mon_stream::Acct),
        Box::new(mon_stream::Poly),
    ]
}

fn main() {
    let args: Vec<String> = std::env::args().collect();
    if args.len() < 2 {
        eprintln!("usage: rvmon <monitor> --prop Cxx [--seed S] [--shard i/n] [--tier quick|thorough] [--cases N] [--only idx] [--profile P] [--describe]");
        std::process::exit(64);
    }
    if args[1] == "cold-child" {
        // child process of a C18 cold-start case: must not touch the library before its threads start
        mon_thr::cold_child(&args[2..]);
        return;
    }
    let mut ctx = Ctx {
        monitor: args[1].clone(),
        prop: "*".into(),
        seed: 1,
        shard: 0,
        nshards: 1,
        tier: Tier::Quick,
        only: None,
        cases: None,
        profile: "standard".into(),
        describe: false,
        variant: "rel".into(),
        first: 0,
        after: None,
        case_timeout: 300,
    };
    let mut i = 2;
    while i < args.len() {
        let a = args[i].as_str();
        let val = |i: usize| -> String { args.get(i + 1).cloned().unwrap_or_default() };
        match a {
            "--prop" => {
                ctx.prop = val(i);
                i += 1;
            }
            "--seed" => {
                ctx.seed = val(i).parse().unwrap_or(1);
                i += 1;
            }
            "--shard" => {
                let v = val(i);
                let mut it = v.split('/');
                ctx.shard = it.next().and_then(|x| x.parse().ok()).unwrap_or(0);
                ctx.nshards = it.next().and_then(|x| x.parse().ok()).unwrap_or(1);
                i += 1;
            }
            "--tier" => {
                ctx.tier = if val(i) == "thorough" { Tier::Thorough } else { Tier::Quick };
                i += 1;
            }
            "--cases" => {
                ctx.cases = val(i).parse().ok();
                i += 1;
            }
            "--first" => {
                ctx.first = val(i).parse().unwrap_or(0);
                i += 1;
            }
            "--after" => {
                ctx.after = val(i).parse().ok();
                i += 1;
            }
            "--case-timeout" => {
                ctx.case_timeout = val(i).parse().unwrap_or(300);
                i += 1;
            }
            "--only" => {
                ctx.only = val(i).parse().ok();
                i += 1;
            }
            "--profile" => {
                ctx.profile = val(i);
                i += 1;
            }
            "--variant" => {
                ctx.variant = val(i);
                i += 1;
            }
            "--describe" => ctx.describe = true,
            _ => {
                eprintln!("unknown argument {}", a);
                std::process::exit(64);
            }
        }
        i += 1;
    }
    if ctx.monitor == "noop" {
        return;
    }
    let ms = monitors();
    match ms.iter().find(|m| m.name() == ctx.monitor) {
        Some(m) => {
            let rc = mon::run_monitor(m.as_ref(), &ctx);
            std::process::exit(rc);
        }
        None => {
            eprintln!("unknown monitor {}", ctx.monitor);
            std::process::exit(64);
        }
    }
}
