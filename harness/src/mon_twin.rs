//! Lock-step twin monitors (M-TWIN):
//!   reset  (C10)  used-then-reset instance  vs  freshly constructed instance
//!   chan   (C11)  n-channel instance  vs  n single-channel instances; masked vs unmasked
//!   bad    (C13)  history with malformed calls inserted  vs  the same history without them
//!   wrap   (C16)  process()/process_partial*/Box<dyn VecResampler>  vs  process_into_buffer
//!   prec   (C17)  f32 instance  vs  f64 instance

use crate::any::AnyRes;
use crate::cfg::*;
use crate::json::J;
use crate::mon::*;
use crate::mon_hist::profile_by_name;
use crate::rng::Rng;
use crate::run::*;
use crate::sig::Sig;

fn pick_sample_type(ctx: &Ctx, idx: u64) -> bool {
    let mut r = Rng::derive(&[ctx.seed, idx, 0x7e57]);
    r.bool()
}

fn base_desc<T: Smp>(cfg: &Cfg, sig_seed: u64) -> J {
    J::obj().with("sample", J::s(T::NAME)).with("cfg", cfg.json()).with("signal", J::s("noise")).with("signal_seed", J::Int(sig_seed as i128))
}

// ==========================================================================================
// C10

pub struct Reset;

impl Reset {
    fn case_t<T: Smp>(&self, ctx: &Ctx, idx: u64, st: &mut Stats) -> CaseResult {
        let mut rng = ctx.rng_for(idx);
        let gp = profile_by_name(&ctx.profile);
        let cfg = gen_cfg(&mut rng, &gp);
        let mut hp = HistProfile::full(24);
        hp.allow_reset = false;
        if rng.chance(0.3) {
            hp.ratio_weight = 0.5;
        }
        let pre = gen_history(&mut rng, &cfg, &hp);
        let nbad = if rng.chance(0.3) { rng.ui(1, 3) } else { 0 };
        let bads: Vec<(usize, BadCall)> = (0..nbad).map(|_| (rng.ui(0, pre.len()), gen_bad(&mut rng, cfg.channels))).collect();
        // dirty state right before the reset: pending ramp / reduced chunk size
        let mut tail: Vec<Op> = Vec::new();
        if cfg.kind.is_async() && rng.chance(0.5) {
            tail.push(Op::SetRatio { v: gen_in_range_ratio(&mut rng, &cfg), ramp: rng.bool(), rel: false });
        }
        if cfg.kind.is_sinc() && rng.chance(0.4) {
            tail.push(Op::SetChunk(rng.ui(1, cfg.chunk)));
        }
        let mut hp2 = HistProfile::full(16);
        hp2.allow_reset = rng.chance(0.2);
        let post = gen_history(&mut rng, &cfg, &hp2);
        let s1 = rng.next();
        let s2 = rng.next();
        let desc = base_desc::<T>(&cfg, s1)
            .with("before_reset", ops_json(&pre))
            .with("malformed_calls_at", J::Arr(bads.iter().map(|(i, b)| b.json().with("at", J::u(*i))).collect()))
            .with("just_before_reset", ops_json(&tail))
            .with("after_reset", ops_json(&post))
            .with("signal_seed_after", J::Int(s2 as i128));
        set_desc(&desc);
        let mut cr = CaseResult { desc, ..Default::default() };
        if ctx.describe {
            return cr;
        }
        let mut a = match Runner::<T>::fresh(&cfg, Sig::noise(s1)) {
            Ok(r) => r,
            Err(e) => {
                cr.inconclusive = Some(format!("constructor: {}", e));
                return cr;
            }
        };
        for (i, op) in pre.iter().enumerate() {
            for (at, b) in &bads {
                if *at == i {
                    let _ = do_bad_call(&mut a, b);
                }
            }
            a.step(op);
        }
        for op in &tail {
            a.step(op);
        }
        if a.findings.iter().any(|f| f.prop == "C03") {
            cr.inconclusive = Some(format!("pre-reset history hit a C03 event: {}", a.findings[0].detail));
            return cr;
        }
        a.step(&Op::Reset);
        let mut b = Runner::<T>::fresh_direct(&cfg, Sig::noise(s2)).unwrap();
        a.sig = Sig::noise(s2);
        a.pos = 0;
        let (ga, gb) = (a.drv.getters(), b.drv.getters());
        if ga != gb {
            cr.viols.push(Viol::new("C10", "getters_after_reset", format!("after reset {:?}, fresh instance {:?}", ga, gb)));
        }
        let mut compared = 0u64;
        for (i, op) in post.iter().enumerate() {
            let sa = a.step(op);
            let sb = b.step(op);
            compared += 1;
            if let Some(d) = diff_steps(&sa, &sb, true) {
                cr.viols.push(Viol { prop: "C10".into(), clause: "diverges_from_fresh".into(), detail: format!("op {} after reset ({}): {}", i, op.json().dump(), d), step: i });
                break;
            }
        }
        st.add("compared_steps", compared as f64);
        st.add("pre_reset_ops", (pre.len() + tail.len()) as f64);
        st.add("pre_reset_malformed_calls", bads.len() as f64);
        st.add(&format!("cases.{}", cfg.kind.name()), 1.0);
        st.add("cases_with_pending_ramp", tail.iter().any(|o| matches!(o, Op::SetRatio { ramp: true, .. })) as u8 as f64);
        cr.class = Some(format!("{}|{}|{}|{}", T::NAME, cfg.class(), ops_shape(&pre), ops_shape(&post)));
        cr
    }
}

impl Monitor for Reset {
    fn name(&self) -> &'static str {
        "reset"
    }
    fn budget(&self, ctx: &Ctx) -> u64 {
        if ctx.tier == Tier::Quick {
            20_000
        } else {
            300_000
        }
    }
    fn case(&self, ctx: &Ctx, idx: u64, st: &mut Stats) -> CaseResult {
        if pick_sample_type(ctx, idx) {
            self.case_t::<f32>(ctx, idx, st)
        } else {
            self.case_t::<f64>(ctx, idx, st)
        }
    }
}

// ==========================================================================================
// C11

pub struct Chan;

impl Chan {
    fn case_t<T: Smp>(&self, ctx: &Ctx, idx: u64, st: &mut Stats) -> CaseResult {
        let mut rng = ctx.rng_for(idx);
        let gp = profile_by_name(&ctx.profile);
        let mut cfg = gen_cfg(&mut rng, &gp);
        cfg.channels = rng.ui(1, gp.max_channels.min(8));
        let masked = rng.chance(0.5);
        let mut hp = HistProfile::full(20);
        hp.mask_mode = Some(MaskMode::None);
        let mut ops = gen_history(&mut rng, &cfg, &hp);
        let mask = gen_mask(&mut rng, cfg.channels);
        let s1 = rng.next();
        let desc = base_desc::<T>(&cfg, s1).with("twin", J::s(if masked { "masked vs unmasked" } else { "n-channel vs n x 1-channel" })).with(
            "mask",
            if masked { J::Arr(mask.iter().map(|b| J::b(*b)).collect()) } else { J::Null },
        );
        let mut cr = CaseResult::default();
        if masked {
            // A: constant mask (inactive channels randomly passed as empty slices); B: no mask
            let mut ops_a = ops.clone();
            // 40 %: the mask is only passed for the first calls; from `switch_at` on the calls carry None again
            // and every channel must be processed again (written at once, and - once the filter has been
            // refilled - identical to the twin that never saw a mask)
            let switch_at: usize = if rng.chance(0.4) { rng.ui(1, ops.len().max(1)) } else { usize::MAX };
            for (i, op) in ops_a.iter_mut().enumerate() {
                if i >= switch_at {
                    continue;
                }
                match op {
                    Op::Proc { mask: m, empty_inactive, .. } => {
                        *m = Some(mask.clone());
                        *empty_inactive = rng.bool();
                    }
                    Op::Partial { mask: m, .. } => *m = Some(mask.clone()),
                    _ => {}
                }
            }
            let desc = desc.with("mask_removed_from_op", if switch_at == usize::MAX { J::Null } else { J::u(switch_at) }).with("ops", ops_json(&ops_a));
            set_desc(&desc);
            cr.desc = desc;
            if ctx.describe {
                return cr;
            }
            let mut a = match Runner::<T>::fresh(&cfg, Sig::noise(s1)) {
                Ok(r) => r,
                Err(e) => {
                    cr.inconclusive = Some(e);
                    return cr;
                }
            };
            let mut b = Runner::<T>::fresh_direct(&cfg, Sig::noise(s1)).unwrap();
            let any_active = mask.iter().any(|x| *x);
            // input frames fed since the mask was removed; the formerly inactive channels are compared once
            // two filter lengths / FFT blocks plus two calls have gone by
            let mut fed_since_switch = 0usize;
            let mut calls_since_switch = 0usize;
            // asynchronous types keep flen + ceil(max_relative / ratio) frames of look-back per channel (the read
            // position may lag the newest frame by the longest permitted step) and consume chunk-wise
            let settle = if cfg.kind.is_fft() {
                2 * cfg.fft_sizes().0 + 16
            } else {
                4 * cfg.flen() + 2 * (cfg.max_rel / cfg.ratio).ceil().min(1e6) as usize + 2 * cfg.chunk + 32
            };
            for (i, (oa, ob)) in ops_a.iter().zip(ops.iter()).enumerate() {
                if matches!(oa, Op::Reset) && i >= switch_at {
                    // a reset re-aligns everything at once
                    fed_since_switch = usize::MAX / 2;
                }
                let sb = b.step(ob);
                let sa = match guarded(|| a.step(oa)) {
                    Ok(x) => x,
                    Err(p) => {
                        // the same call without the mask just succeeded on the twin
                        cr.viols.push(Viol { prop: "C11".into(), clause: "masked_call_panics".into(), detail: format!("op {} ({}) panicked with the mask, the unmasked twin completed: {}", i, oa.json().dump(), p), step: i });
                        break;
                    }
                };
                st.add("compared_steps", 1.0);
                let mut d = None;
                if sa.res != sb.res && (any_active || sa.res.is_err() != sb.res.is_err() || sa.res.as_ref().map(|x| x.0).ok() != sb.res.as_ref().map(|x| x.0).ok()) {
                    // with an all-false mask the allocating wrapper cannot report an output count
                    // (all vectors are empty); the consumed count must still agree
                    let vec_path = matches!(oa, Op::Proc { path: Path::Vecs, .. } | Op::Partial { into: false, .. });
                    if !(vec_path && !any_active && sa.res.as_ref().map(|x| x.0).ok() == sb.res.as_ref().map(|x| x.0).ok()) {
                        d = Some(format!("counts differ: masked {:?} vs unmasked {:?}", sa.res, sb.res));
                    }
                }
                if d.is_none() && (sa.before != sb.before || sa.after != sb.after) {
                    d = Some(format!("getters differ: masked {:?}/{:?} vs unmasked {:?}/{:?}", sa.before, sa.after, sb.before, sb.after));
                }
                let unmasked_now = i >= switch_at;
                let settled = unmasked_now && fed_since_switch >= settle && calls_since_switch >= 2;
                if unmasked_now && oa.is_process() {
                    if let Ok((n_in, _)) = sa.res {
                        fed_since_switch = fed_since_switch.saturating_add(n_in);
                    }
                    calls_since_switch += 1;
                }
                if d.is_none() {
                    for ch in 0..cfg.channels {
                        if mask[ch] || settled {
                            if let Some(x) = diff_chan(&sa.out[ch], &sb.out[ch]) {
                                d = Some(format!("{} channel {}: {}", if mask[ch] { "active".to_string() } else { format!("(mask removed {} calls and {} input frames ago) formerly inactive", calls_since_switch, fed_since_switch) }, ch, x));
                                break;
                            }
                        } else if unmasked_now {
                            // no mask: the channel must have been processed (same frame count as the twin)
                            if oa.is_process() && sa.res.is_ok() && sa.out[ch].len() != sb.out[ch].len() {
                                d = Some(format!("channel {} was inactive under the earlier mask; this call carries no mask but it received {} frames, the twin {}", ch, sa.out[ch].len(), sb.out[ch].len()));
                                break;
                            }
                        } else if !sa.out[ch].is_empty() {
                            d = Some(format!("inactive channel {} produced {} frames", ch, sa.out[ch].len()));
                            break;
                        }
                    }
                }
                if let Some(d) = d {
                    cr.viols.push(Viol { prop: "C11".into(), clause: "masked_differs_from_unmasked".into(), detail: format!("op {} ({}): {}", i, oa.json().dump(), d), step: i });
                    break;
                }
            }
            for f in a.findings.iter().filter(|f| f.prop == "C11") {
                cr.viols.push(Viol { prop: "C11".into(), clause: f.clause.into(), detail: f.detail.clone(), step: f.step });
            }
            // a call without a mask that leaves part of an output channel unwritten, after earlier masked calls
            if let Some(f) = a.findings.iter().find(|f| f.clause == "unwritten_within_count" && f.step >= switch_at) {
                if cr.viols.is_empty() && !b.findings.iter().any(|g| g.clause == "unwritten_within_count") {
                    cr.viols.push(Viol { prop: "C11".into(), clause: "channel_skipped_after_mask_removed".into(), detail: format!("op {} carries no mask (an earlier call did): {}", f.step, f.detail), step: f.step });
                }
            }
            // a panic / spurious Err on both sides is C03's business; in the masked run alone, while the
            // unmasked twin completes the same history, it is a mask that changed the outcome
            let pa = a.findings.iter().find(|f| f.prop == "C03");
            let pb = b.findings.iter().any(|f| f.prop == "C03");
            match (pa, pb) {
                (Some(f), false) => {
                    if cr.viols.is_empty() {
                        cr.viols.push(Viol { prop: "C11".into(), clause: "masked_run_fails_unmasked_completes".into(), detail: format!("op {}: {} ({}); the same history without the mask completes", f.step, f.clause, f.detail), step: f.step });
                    }
                }
                (None, false) => {}
                _ => {
                    if cr.viols.is_empty() {
                        cr.inconclusive = Some("C03 event in this history".into());
                    }
                }
            }
            st.add("masked_cases", 1.0);
            st.add("all_false_mask_cases", (!any_active) as u8 as f64);
        } else {
            // Path::Max uses allocate-time buffers of the n-channel shape: fine for both.
            let desc = desc.with("ops", ops_json(&ops));
            set_desc(&desc);
            cr.desc = desc;
            if ctx.describe {
                return cr;
            }
            for op in ops.iter_mut() {
                match op {
                    Op::Proc { empty_inactive, .. } => *empty_inactive = false,
                    // per-channel partial lengths are a function of (channel, channel count): the
                    // single-channel twins could not be given the same lengths
                    Op::Partial { ragged, .. } => *ragged = None,
                    _ => {}
                }
            }
            let mut a = match Runner::<T>::fresh(&cfg, Sig::noise(s1)) {
                Ok(r) => r,
                Err(e) => {
                    cr.inconclusive = Some(e);
                    return cr;
                }
            };
            let mut c1 = cfg.clone();
            c1.channels = 1;
            let mut singles: Vec<Runner<T>> = (0..cfg.channels)
                .map(|ch| {
                    let mut r = Runner::<T>::fresh_direct(&c1, Sig::noise(s1)).unwrap();
                    r.ch_off = ch;
                    r
                })
                .collect();
            'outer: for (i, op) in ops.iter().enumerate() {
                let sa = a.step(op);
                for (ch, s) in singles.iter_mut().enumerate() {
                    let sb = s.step(op);
                    st.add("compared_steps", 1.0);
                    let mut d = None;
                    if sa.res != sb.res {
                        d = Some(format!("counts: {}-channel {:?} vs single {:?}", cfg.channels, sa.res, sb.res));
                    } else if Getters0(sa.before) != Getters0(sb.before) || Getters0(sa.after) != Getters0(sb.after) {
                        d = Some(format!("getters: {:?}/{:?} vs {:?}/{:?}", sa.before, sa.after, sb.before, sb.after));
                    } else if let Some(x) = diff_chan(&sa.out[ch], &sb.out[0]) {
                        d = Some(x);
                    }
                    if let Some(d) = d {
                        cr.viols.push(Viol {
                            prop: "C11".into(),
                            clause: "multi_vs_single_channel".into(),
                            detail: format!("op {} ({}), channel {}: {}", i, op.json().dump(), ch, d),
                            step: i,
                        });
                        break 'outer;
                    }
                }
            }
            if a.findings.iter().any(|f| f.prop == "C03") {
                cr.inconclusive = Some("C03 event in this history".into());
            }
            st.add("multi_vs_single_cases", 1.0);
        }
        st.add(&format!("cases.{}", cfg.kind.name()), 1.0);
        st.add(&format!("channels.{}", cfg.channels), 1.0);
        cr.class = Some(format!("{}|{}|ch{}|{}|{}", T::NAME, cfg.class(), cfg.channels, masked, ops_shape(&ops)));
        cr
    }
}

#[derive(PartialEq, Debug)]
struct G0(usize, usize, usize, usize, usize);
#[allow(non_snake_case)]
fn Getters0(g: crate::any::Getters) -> G0 {
    G0(g.in_next, g.in_max, g.out_next, g.out_max, g.delay)
}

impl Monitor for Chan {
    fn name(&self) -> &'static str {
        "chan"
    }
    fn budget(&self, ctx: &Ctx) -> u64 {
        if ctx.tier == Tier::Quick {
            12_000
        } else {
            200_000
        }
    }
    fn case(&self, ctx: &Ctx, idx: u64, st: &mut Stats) -> CaseResult {
        if pick_sample_type(ctx, idx) {
            self.case_t::<f32>(ctx, idx, st)
        } else {
            self.case_t::<f64>(ctx, idx, st)
        }
    }
}

// ==========================================================================================
// C13

pub struct Malformed;

impl Malformed {
    fn case_t<T: Smp>(&self, ctx: &Ctx, idx: u64, st: &mut Stats) -> CaseResult {
        let mut rng = ctx.rng_for(idx);
        let gp = profile_by_name(&ctx.profile);
        let cfg = gen_cfg(&mut rng, &gp);
        let hp = HistProfile::full(20);
        let ops = gen_history(&mut rng, &cfg, &hp);
        let nbad = rng.ui(1, 6);
        let bads: Vec<(usize, BadCall)> = (0..nbad).map(|_| (rng.ui(0, ops.len()), gen_bad(&mut rng, cfg.channels))).collect();
        let s1 = rng.next();
        let desc = base_desc::<T>(&cfg, s1).with("ops", ops_json(&ops)).with("malformed_calls", J::Arr(bads.iter().map(|(i, b)| b.json().with("before_op", J::u(*i))).collect()));
        set_desc(&desc);
        let mut cr = CaseResult { desc, ..Default::default() };
        if ctx.describe {
            return cr;
        }
        let mut a = match Runner::<T>::fresh(&cfg, Sig::noise(s1)) {
            Ok(r) => r,
            Err(e) => {
                cr.inconclusive = Some(e);
                return cr;
            }
        };
        let mut b = Runner::<T>::fresh_direct(&cfg, Sig::noise(s1)).unwrap();
        let mut applied = 0;
        'outer: for i in 0..=ops.len() {
            for (at, bc) in &bads {
                if *at == i {
                    let (applicable, vs) = do_bad_call(&mut a, bc);
                    if applicable {
                        applied += 1;
                        st.add(&format!("shape.{}", format!("{:?}", bc.bad).split(|c| c == '(' || c == ' ').next().unwrap_or("?")), 1.0);
                        if bc.via_process {
                            st.add("via_process", 1.0);
                        }
                    }
                    for (clause, detail) in vs {
                        let prop = if clause == "alloc_on_error_path" { "C09" } else { "C13" };
                        cr.viols.push(Viol { prop: prop.into(), clause: clause.into(), detail: format!("before op {}: {}", i, detail), step: i });
                    }
                    if cr.viols.iter().any(|v| v.prop == "C13") {
                        break 'outer;
                    }
                }
            }
            if i == ops.len() {
                break;
            }
            let sa = a.step(&ops[i]);
            let sb = b.step(&ops[i]);
            st.add("compared_steps", 1.0);
            if let Some(d) = diff_steps(&sa, &sb, true) {
                cr.viols.push(Viol {
                    prop: "C13".into(),
                    clause: "failed_call_changed_behaviour".into(),
                    detail: format!("op {} ({}) differs from the twin that never saw the malformed call(s): {}", i, ops[i].json().dump(), d),
                    step: i,
                });
                break;
            }
        }
        st.add("malformed_calls", applied as f64);
        st.add(&format!("cases.{}", cfg.kind.name()), 1.0);
        if a.findings.iter().any(|f| f.prop == "C03") {
            cr.inconclusive = Some("C03 event in this history".into());
        }
        cr.class = if applied > 0 { Some(format!("{}|{}|{}|{:?}", T::NAME, cfg.class(), ops_shape(&ops), bads.iter().map(|b| format!("{:?}", b.1.bad)).collect::<Vec<_>>())) } else { None };
        cr
    }

    fn constructors(&self, st: &mut Stats) -> Vec<Viol> {
        use rubato::*;
        let mut v = Vec::new();
        let bad_ratios = [0.0f64, -0.0, -1.0, -1e-300, f64::NEG_INFINITY, -f64::MIN_POSITIVE, -16.0];
        let bad_rel = [0.0f64, 0.5, 0.999999999, 1.0 - f64::EPSILON / 2.0, -1.0, f64::NEG_INFINITY, -0.0];
        let p = || SincInterpolationParameters { sinc_len: 16, f_cutoff: 0.9, oversampling_factor: 4, interpolation: SincInterpolationType::Linear, window: WindowFunction::Hann };
        let mut n = 0u64;
        macro_rules! expect_err {
            ($what:expr, $call:expr, $pat:pat) => {{
                n += 1;
                match guarded(|| $call) {
                    Err(p) => v.push(Viol::new("C13", "constructor_panic", format!("{} panicked: {}", $what, p))),
                    Ok(Ok(_)) => v.push(Viol::new("C13", "constructor_accepted_invalid", format!("{} returned Ok", $what))),
                    Ok(Err(e)) => {
                        if !matches!(e, $pat) {
                            v.push(Viol::new("C13", "constructor_wrong_error", format!("{} returned {:?}", $what, e)));
                        }
                    }
                }
            }};
        }
        macro_rules! table {
            ($t:ty, $tn:expr) => {{
                let scalar = || -> Box<dyn rubato::sinc_interpolator::SincInterpolator<$t>> { Box::new(rubato::sinc_interpolator::ScalarInterpolator::<$t>::new(16, 4, 0.9, WindowFunction::Hann)) };
                for r in bad_ratios {
                    expect_err!(format!("SincFixedIn::<{}>::new(ratio={:?})", $tn, r), SincFixedIn::<$t>::new(r, 2.0, p(), 64, 1), ResamplerConstructionError::InvalidRatio(_));
                    expect_err!(format!("SincFixedOut::<{}>::new(ratio={:?})", $tn, r), SincFixedOut::<$t>::new(r, 2.0, p(), 64, 1), ResamplerConstructionError::InvalidRatio(_));
                    expect_err!(format!("SincFixedIn::<{}>::new_with_interpolator(ratio={:?})", $tn, r), SincFixedIn::<$t>::new_with_interpolator(r, 2.0, SincInterpolationType::Linear, scalar(), 64, 1), ResamplerConstructionError::InvalidRatio(_));
                    expect_err!(format!("SincFixedOut::<{}>::new_with_interpolator(ratio={:?})", $tn, r), SincFixedOut::<$t>::new_with_interpolator(r, 2.0, SincInterpolationType::Cubic, scalar(), 64, 1), ResamplerConstructionError::InvalidRatio(_));
                    expect_err!(format!("FastFixedIn::<{}>::new(ratio={:?})", $tn, r), FastFixedIn::<$t>::new(r, 2.0, PolynomialDegree::Cubic, 64, 1), ResamplerConstructionError::InvalidRatio(_));
                    expect_err!(format!("FastFixedOut::<{}>::new(ratio={:?})", $tn, r), FastFixedOut::<$t>::new(r, 2.0, PolynomialDegree::Linear, 64, 1), ResamplerConstructionError::InvalidRatio(_));
                }
                for m in bad_rel {
                    expect_err!(format!("SincFixedIn::<{}>::new(max_rel={:?})", $tn, m), SincFixedIn::<$t>::new(1.5, m, p(), 64, 2), ResamplerConstructionError::InvalidRelativeRatio(_));
                    expect_err!(format!("SincFixedOut::<{}>::new(max_rel={:?})", $tn, m), SincFixedOut::<$t>::new(1.5, m, p(), 64, 2), ResamplerConstructionError::InvalidRelativeRatio(_));
                    expect_err!(format!("SincFixedIn::<{}>::new_with_interpolator(max_rel={:?})", $tn, m), SincFixedIn::<$t>::new_with_interpolator(1.5, m, SincInterpolationType::Nearest, scalar(), 64, 2), ResamplerConstructionError::InvalidRelativeRatio(_));
                    expect_err!(format!("SincFixedOut::<{}>::new_with_interpolator(max_rel={:?})", $tn, m), SincFixedOut::<$t>::new_with_interpolator(1.5, m, SincInterpolationType::Quadratic, scalar(), 64, 2), ResamplerConstructionError::InvalidRelativeRatio(_));
                    expect_err!(format!("FastFixedIn::<{}>::new(max_rel={:?})", $tn, m), FastFixedIn::<$t>::new(1.5, m, PolynomialDegree::Septic, 64, 2), ResamplerConstructionError::InvalidRelativeRatio(_));
                    expect_err!(format!("FastFixedOut::<{}>::new(max_rel={:?})", $tn, m), FastFixedOut::<$t>::new(1.5, m, PolynomialDegree::Nearest, 64, 2), ResamplerConstructionError::InvalidRelativeRatio(_));
                }
                for (a, b) in [(0usize, 48000usize), (44100, 0), (0, 0)] {
                    expect_err!(format!("FftFixedIn::<{}>::new({}, {})", $tn, a, b), FftFixedIn::<$t>::new(a, b, 64, 2, 1), ResamplerConstructionError::InvalidSampleRate { .. });
                    expect_err!(format!("FftFixedOut::<{}>::new({}, {})", $tn, a, b), FftFixedOut::<$t>::new(a, b, 64, 2, 1), ResamplerConstructionError::InvalidSampleRate { .. });
                    expect_err!(format!("FftFixedInOut::<{}>::new({}, {})", $tn, a, b), FftFixedInOut::<$t>::new(a, b, 64, 1), ResamplerConstructionError::InvalidSampleRate { .. });
                }
            }};
        }
        table!(f32, "f32");
        table!(f64, "f64");
        st.add("invalid_constructor_calls", n as f64);
        v
    }
}

impl Monitor for Malformed {
    fn name(&self) -> &'static str {
        "bad"
    }
    fn budget(&self, ctx: &Ctx) -> u64 {
        if ctx.tier == Tier::Quick {
            20_000
        } else {
            300_000
        }
    }
    fn case(&self, ctx: &Ctx, idx: u64, st: &mut Stats) -> CaseResult {
        if idx == 0 {
            // case 0: the constructor table
            let desc = J::obj().with("constructors", J::s("non-positive ratios, max_relative < 1, zero sample rates: all seven types, both sample types, new and new_with_interpolator"));
            set_desc(&desc);
            let mut cr = CaseResult { desc, ..Default::default() };
            if !ctx.describe {
                cr.viols = self.constructors(st);
            }
            cr.class = Some("constructors".into());
            return cr;
        }
        if pick_sample_type(ctx, idx) {
            self.case_t::<f32>(ctx, idx, st)
        } else {
            self.case_t::<f64>(ctx, idx, st)
        }
    }
}

// ==========================================================================================
// C16

pub struct Wrap;

/// Execute `op` on `b` through process_into_buffer only, zero-padding partial input.
fn step_core<T: Smp>(b: &mut Runner<T>, op: &Op) -> StepOut<T> {
    match op {
        Op::Proc { mask, empty_inactive, .. } => b.step(&Op::Proc { path: Path::Exact, slack_in: 0, slack_out: 0, mask: mask.clone(), empty_inactive: *empty_inactive }),
        Op::Partial { frac, mask, ragged, .. } => {
            // zero-padded equivalent: k frames of signal then zeros up to input_frames_next()
            let g = b.drv.getters();
            let n_in = g.in_next;
            let k = match frac {
                Some(f) => ((*f) * n_in as f64).floor().max(1.0).min(n_in as f64) as usize,
                None => 0,
            };
            let k = if n_in == 0 { 0 } else { k };
            let nch = b.cfg.channels;
            let mut wi: Vec<Vec<T>> = Vec::with_capacity(nch);
            for ch in 0..nch {
                let mut c = Vec::with_capacity(n_in);
                for j in 0..n_in {
                    c.push(if j < partial_len(k, *ragged, ch, nch) { b.sample(ch, b.pos + j as u64) } else { T::of64(0.0) });
                }
                wi.push(c);
            }
            let sent = T::sentinel(0x321);
            let mut wo: Vec<Vec<T>> = (0..nch).map(|_| vec![sent; g.out_next]).collect();
            let r = b.drv.pib(&wi, &mut wo, mask.as_deref());
            let mut so = StepOut { res: Ok((0, 0)), out: vec![Vec::new(); nch], before: g, after: g, allocs: Default::default(), fed: 0 };
            match r {
                Ok((i, o)) => {
                    so.res = Ok((i, o));
                    for ch in 0..nch {
                        if mask.as_ref().map(|m| m[ch]).unwrap_or(true) {
                            so.out[ch] = wo[ch][..o.min(wo[ch].len())].to_vec();
                        }
                    }
                    b.pos += k as u64;
                    b.model.cur = b.model.tgt;
                }
                Err(e) => so.res = Err(crate::any::err_repr(&e)),
            }
            so.after = b.drv.getters();
            so
        }
        other => b.step(other),
    }
}

impl Wrap {
    fn case_t<T: Smp>(&self, ctx: &Ctx, idx: u64, st: &mut Stats) -> CaseResult {
        let mut rng = ctx.rng_for(idx);
        let gp = profile_by_name(&ctx.profile);
        let cfg = gen_cfg(&mut rng, &gp);
        let boxed = rng.chance(0.35);
        let mut hp = HistProfile::full(24);
        if boxed {
            hp.allow_reset = false;
            hp.allow_chunk = false;
        }
        let mut ops = gen_history(&mut rng, &cfg, &hp);
        // wrapper-heavy: turn most processing calls into process()/partial calls
        for op in ops.iter_mut() {
            if let Op::Proc { path, mask, .. } = op {
                let m = mask.clone();
                let x = rng.f();
                if x < 0.45 {
                    *path = Path::Vecs;
                } else if x < 0.75 {
                    let frac = if rng.chance(0.35) { None } else { Some(rng.f()) };
                    *op = Op::Partial { frac, into: rng.bool(), mask: m, ragged: if rng.chance(0.4) { Some(rng.next()) } else { None } };
                }
            }
        }
        // a flush tail: repeated None calls
        if rng.chance(0.4) {
            for _ in 0..rng.ui(1, 4) {
                let m = if rng.chance(0.4) { Some(gen_mask(&mut rng, cfg.channels)) } else { None };
                ops.push(Op::Partial { frac: None, into: rng.bool(), mask: m, ragged: None });
            }
        }
        let s1 = rng.next();
        let desc = base_desc::<T>(&cfg, s1).with("twin", J::s(if boxed { "Box<dyn VecResampler> vs direct" } else { "wrappers vs process_into_buffer on zero-padded input" })).with("ops", ops_json(&ops));
        set_desc(&desc);
        let mut cr = CaseResult { desc, ..Default::default() };
        if ctx.describe {
            return cr;
        }
        let mut a: Runner<T> = if boxed {
            match AnyRes::<T>::build(&cfg) {
                Ok(r) => Runner::new(&cfg, Box::new(Boxed(r.boxed())), Sig::noise(s1)),
                Err(e) => {
                    cr.inconclusive = Some(format!("{}", e));
                    return cr;
                }
            }
        } else {
            match Runner::<T>::fresh(&cfg, Sig::noise(s1)) {
                Ok(r) => r,
                Err(e) => {
                    cr.inconclusive = Some(e);
                    return cr;
                }
            }
        };
        let mut b = Runner::<T>::fresh_direct(&cfg, Sig::noise(s1)).unwrap();
        let (mut tot_in, mut tot_out) = (0u64, 0u64);
        for (i, op) in ops.iter().enumerate() {
            // a panic on one side only is a divergence between the wrapper and the core; on both sides it is
            // C03's business
            let ra = crate::mon::guarded(|| a.step(op));
            let rb = crate::mon::guarded(|| if boxed { b.step(op) } else { step_core(&mut b, op) });
            let (sa, sb) = match (ra, rb) {
                (Ok(x), Ok(y)) => (x, y),
                (Err(p), Ok(_)) => {
                    cr.viols.push(Viol {
                        prop: "C16".into(),
                        clause: if boxed { "boxed_panics_direct_completes".into() } else { "wrapper_panics_core_completes".into() },
                        detail: format!("op {} ({}): panicked: {}; the same call through {} completed", i, op.json().dump(), p, if boxed { "the concrete type" } else { "process_into_buffer on zero-padded input" }),
                        step: i,
                    });
                    break;
                }
                (Ok(_), Err(p)) => {
                    cr.viols.push(Viol {
                        prop: "C16".into(),
                        clause: if boxed { "direct_panics_boxed_completes".into() } else { "core_panics_wrapper_completes".into() },
                        detail: format!("op {} ({}): the wrapper call completed, the same call through {} panicked: {}", i, op.json().dump(), if boxed { "the concrete type" } else { "process_into_buffer on zero-padded input" }, p),
                        step: i,
                    });
                    break;
                }
                (Err(p), Err(_)) => {
                    cr.inconclusive = Some(format!("panic on both sides (C03): {}", p));
                    break;
                }
            };
            st.add("compared_steps", 1.0);
            match op {
                Op::Proc { path: Path::Vecs, .. } => st.add("process_calls_compared", 1.0),
                Op::Partial { frac: Some(_), .. } => st.add("partial_some_compared", 1.0),
                Op::Partial { frac: None, .. } => st.add("partial_none_compared", 1.0),
                _ => {}
            }
            if let Ok((i_, o_)) = sa.res {
                tot_in += i_ as u64;
                tot_out += o_ as u64;
            }
            // with an all-false mask the allocating wrappers cannot report an output count
            let all_false = match op {
                Op::Proc { mask: Some(m), path: Path::Vecs, .. } | Op::Partial { mask: Some(m), into: false, .. } => !m.iter().any(|x| *x),
                _ => false,
            };
            let d = if all_false {
                if sa.res.is_ok() != sb.res.is_ok() || sa.after != sb.after {
                    Some(format!("{:?}/{:?} vs {:?}/{:?}", sa.res, sa.after, sb.res, sb.after))
                } else if sa.out.iter().any(|c| !c.is_empty()) {
                    Some("frames returned for inactive channels".to_string())
                } else {
                    None
                }
            } else {
                diff_steps(&sa, &sb, true)
            };
            if let Some(d) = d {
                cr.viols.push(Viol {
                    prop: "C16".into(),
                    clause: if boxed { "boxed_differs".into() } else { "wrapper_differs_from_core".into() },
                    detail: format!("op {} ({}): {}", i, op.json().dump(), d),
                    step: i,
                });
                break;
            }
        }
        let _ = (tot_in, tot_out);
        for f in a.findings.iter().filter(|f| f.prop == "C16") {
            cr.viols.push(Viol { prop: "C16".into(), clause: f.clause.into(), detail: f.detail.clone(), step: f.step });
        }
        // a panic on both sides is C03's business (inconclusive here); a panic of the wrapper run alone,
        // while the same calls made through process_into_buffer complete, is a C16 violation
        let pa = a.findings.iter().find(|f| f.prop == "C03");
        let pb = b.findings.iter().find(|f| f.prop == "C03");
        match (pa, pb) {
            (Some(f), None) => {
                cr.viols.retain(|v| v.clause != "wrapper_differs_from_core" && v.clause != "boxed_differs");
                cr.viols.push(Viol { prop: "C16".into(), clause: if boxed { "boxed_panics_direct_completes".into() } else { "wrapper_panics_core_completes".into() }, detail: format!("op {}: {} ({}); the same history through {} completes", f.step, f.clause, f.detail, if boxed { "the concrete type" } else { "process_into_buffer on zero-padded input" }), step: f.step });
            }
            (None, None) => {}
            _ => cr.inconclusive = Some("C03 event in this history".into()),
        }
        st.add(&format!("cases.{}", cfg.kind.name()), 1.0);
        st.add(if boxed { "boxed_cases" } else { "wrapper_cases" }, 1.0);
        cr.class = Some(format!("{}|{}|{}|{}", T::NAME, cfg.class(), boxed, ops_shape(&ops)));
        cr
    }
}

impl Monitor for Wrap {
    fn name(&self) -> &'static str {
        "wrap"
    }
    fn budget(&self, ctx: &Ctx) -> u64 {
        if ctx.tier == Tier::Quick {
            20_000
        } else {
            300_000
        }
    }
    fn case(&self, ctx: &Ctx, idx: u64, st: &mut Stats) -> CaseResult {
        if pick_sample_type(ctx, idx) {
            self.case_t::<f32>(ctx, idx, st)
        } else {
            self.case_t::<f64>(ctx, idx, st)
        }
    }
}

// ==========================================================================================
// C17

pub struct Prec;

impl Monitor for Prec {
    fn name(&self) -> &'static str {
        "prec"
    }
    fn budget(&self, ctx: &Ctx) -> u64 {
        if ctx.tier == Tier::Quick {
            8_000
        } else {
            120_000
        }
    }
    fn case(&self, ctx: &Ctx, idx: u64, st: &mut Stats) -> CaseResult {
        let mut rng = ctx.rng_for(idx);
        let mut gp = profile_by_name(&ctx.profile);
        // large tables are where single precision is stressed (D12): allow them more often
        let big_table = rng.chance(0.15);
        if big_table {
            gp.kinds = vec![Kind::SincIn, Kind::SincOut];
        }
        let mut cfg = gen_cfg(&mut rng, &gp);
        if big_table {
            cfg.sinc_len = *rng.pick(&[128usize, 256, 512]);
            cfg.oversampling = *rng.pick(&[256usize, 512, 1024, 2048]);
            while cfg.flen() * cfg.oversampling > 300_000 {
                cfg.oversampling /= 2;
            }
            cfg.chunk = cfg.chunk.min(1024);
            cfg.channels = 1;
        }
        let hp = HistProfile::full(if big_table { 6 } else { 20 });
        let ops = gen_history(&mut rng, &cfg, &hp);
        let s1 = rng.next();
        let desc = J::obj().with("twin", J::s("f32 vs f64")).with("cfg", cfg.json()).with("signal", J::s("noise rounded to f32")).with("signal_seed", J::Int(s1 as i128)).with("ops", ops_json(&ops));
        set_desc(&desc);
        let mut cr = CaseResult { desc, ..Default::default() };
        if ctx.describe {
            return cr;
        }
        let mut a = match Runner::<f32>::fresh(&cfg, Sig::noise(s1)) {
            Ok(r) => r,
            Err(e) => {
                cr.inconclusive = Some(e);
                return cr;
            }
        };
        let mut b = Runner::<f64>::fresh_direct(&cfg, Sig::noise(s1)).unwrap();
        a.round32 = true;
        b.round32 = true;
        let k_bound = match cfg.kind {
            Kind::SincIn | Kind::SincOut => 16.0 + cfg.flen() as f64 / 2.0,
            Kind::FastIn | Kind::FastOut => 32.0,
            _ => {
                let (fi, fo) = cfg.fft_sizes();
                64.0 + 16.0 * ((2 * fi.max(fo)) as f64).log2()
            }
        };
        let eps = f32::EPSILON as f64;
        let mut worst = 0.0f64;
        let (mut sxy, mut syy) = (0.0f64, 0.0f64);
        let mut all32: Vec<f64> = Vec::new();
        let mut all64: Vec<f64> = Vec::new();
        for (i, op) in ops.iter().enumerate() {
            let sa = a.step(op);
            let sb = b.step(op);
            st.add("compared_steps", 1.0);
            if sa.res != sb.res || sa.before != sb.before || sa.after != sb.after {
                cr.viols.push(Viol {
                    prop: "C17".into(),
                    clause: "control_decisions_differ".into(),
                    detail: format!("op {} ({}): f32 {:?} {:?}->{:?}  vs  f64 {:?} {:?}->{:?}", i, op.json().dump(), sa.res, sa.before, sa.after, sb.res, sb.before, sb.after),
                    step: i,
                });
                break;
            }
            for ch in 0..cfg.channels {
                if sa.out[ch].len() != sb.out[ch].len() {
                    cr.viols.push(Viol { prop: "C17".into(), clause: "control_decisions_differ".into(), detail: format!("op {}: channel {} lengths {} vs {}", i, ch, sa.out[ch].len(), sb.out[ch].len()), step: i });
                    break;
                }
                let peak = sb.out[ch].iter().fold(1.0f64, |m, v| m.max(v.abs()));
                for (j, (x, y)) in sa.out[ch].iter().zip(sb.out[ch].iter()).enumerate() {
                    let y32 = *y as f32 as f64;
                    let e = ((*x as f64) - y32).abs() / (eps * peak);
                    if e > worst {
                        worst = e;
                    }
                    if !(e <= k_bound) {
                        cr.viols.push(Viol {
                            prop: "C17".into(),
                            clause: "value_beyond_single_precision".into(),
                            detail: format!("op {} channel {} frame {}: f32 {:e} vs f64 {:e}: {:.1} eps32*peak > bound {:.0}", i, ch, j, x, y, e, k_bound),
                            step: i,
                        });
                        break;
                    }
                    sxy += (*x as f64) * *y;
                    syy += *y * *y;
                    if ch == 0 && all32.len() < 200_000 {
                        all32.push(*x as f64);
                        all64.push(*y);
                    }
                }
            }
            if !cr.viols.is_empty() {
                break;
            }
        }
        // attribution: least-squares gain of the f32 stream against the f64 stream, and shape residual
        // the gain estimate is only meaningful when the compared segment carries real signal energy
        // (start-up segments of the block-wise FFT types are nearly silent: 94 eps32 "gain error" on an
        // rms of 1e-3 was a false alarm in a thorough run); require rms >= 5 % of the peak and 1024 frames
        let n_cmp = all64.len().max(1) as f64;
        let peak_all = all64.iter().fold(1.0f64, |m, v| m.max(v.abs()));
        let energetic = all64.len() >= 1024 && (all64.iter().map(|v| v * v).sum::<f64>() / n_cmp).sqrt() >= 0.05 * peak_all;
        if syy > 1e-3 && energetic && cr.viols.is_empty() {
            let g = sxy / syy;
            let gerr = (g - 1.0).abs() / eps;
            let fam = if cfg.kind.is_sinc() { "sinc" } else if cfg.kind.is_fast() { "fast" } else { "fft" };
            st.max(&format!("worst_gain_error_eps32.{}", fam), gerr);
            let gain_bound = if cfg.kind.is_fft() { k_bound / 4.0 } else { 32.0 + cfg.flen() as f64 / 8.0 };
            st.max(&format!("worst_gain_error_over_bound.{}", fam), gerr / gain_bound);
            let peak = all64.iter().fold(1.0f64, |m, v| m.max(v.abs()));
            let shape = all32.iter().zip(all64.iter()).fold(0.0f64, |m, (x, y)| m.max((x - g * y).abs())) / (eps * peak);
            st.max("worst_shape_residual_eps32", shape);
            if gerr > gain_bound {
                cr.viols.push(Viol::new("C17", "gain_differs", format!("least-squares gain of the f32 output against the f64 output is 1{:+.3e} = {:.0} eps32 (> {:.0})", g - 1.0, gerr, gain_bound)));
            }
        }
        st.max("worst_error_eps32_times_peak", worst);
        st.max(&format!("worst_error_eps32.{}", if cfg.kind.is_sinc() { "sinc" } else if cfg.kind.is_fast() { "fast" } else { "fft" }), worst);
        st.min("least_margin_factor", k_bound / worst.max(1e-9));
        st.add(&format!("cases.{}", cfg.kind.name()), 1.0);
        st.add("big_table_cases", big_table as u8 as f64);
        if a.findings.iter().chain(b.findings.iter()).any(|f| f.prop == "C03") {
            cr.inconclusive = Some("C03 event in this history".into());
        }
        cr.class = Some(format!("{}|{}", cfg.class(), ops_shape(&ops)));
        cr
    }
}
