//! `set` (C12): the ratio and chunk-size controls accept exactly the documented ranges.
//!
//! Oracle = the documented interval evaluated in f64 exactly as a caller would compute it
//! (`original / max`, `original * max`, `1.0 / max`, `max`).  Values inside (bounds included)
//! must be accepted; NaN, +-inf, <= 0 and everything more than 2 ulp outside must be rejected;
//! the band of 2 ulp just outside each bound is indeterminate (either answer is accepted).
//! A rejected call must return RatioOutOfBounds with the right fields and change nothing: the
//! getters are compared and a twin that never saw the call must stay bit-identical.

use crate::cfg::*;
use crate::json::J;
use crate::mon::*;
use crate::mon_hist::profile_by_name;
use crate::rng::{next_down, next_up, step_ulps, Rng};
use crate::run::*;
use crate::sig::Sig;

pub struct Setters;

#[derive(Clone, Copy, Debug, PartialEq)]
enum Expect {
    Accept,
    Reject,
    Either,
}

fn classify(v: f64, lo: f64, hi: f64) -> Expect {
    if v.is_nan() || v.is_infinite() || v <= 0.0 {
        return Expect::Reject;
    }
    if v >= lo && v <= hi {
        return Expect::Accept;
    }
    // outside: indeterminate within 2 ulp of the nearer bound
    if v < lo && v >= step_ulps(lo, -2) {
        return Expect::Either;
    }
    if v > hi && v <= step_ulps(hi, 2) {
        return Expect::Either;
    }
    Expect::Reject
}

fn gen_arg(rng: &mut Rng, lo: f64, hi: f64) -> f64 {
    match rng.ui(0, 13) {
        0 => lo,
        1 => hi,
        2 => step_ulps(lo, rng.ui(1, 3) as i32),
        3 => step_ulps(hi, -(rng.ui(1, 3) as i32)),
        4 => step_ulps(lo, -(rng.ui(1, 5) as i32)),
        5 => step_ulps(hi, rng.ui(1, 5) as i32),
        6 => *rng.pick(&[f64::NAN, f64::INFINITY, f64::NEG_INFINITY, 0.0, -0.0, -1.0, f64::MIN_POSITIVE, 5e-324, -5e-324, f64::MAX, -f64::MAX, 1e-310]),
        7 => lo * rng.uf(0.0, 0.999999),
        8 => hi * (1.000001 + rng.f() * 10.0),
        9 => -rng.logf(lo, hi),
        _ => rng.logf(lo, hi).clamp(lo, hi),
    }
}

fn feq(a: f64, b: f64) -> bool {
    a.to_bits() == b.to_bits() || (a.is_nan() && b.is_nan())
}

impl Setters {
    fn case_t<T: Smp>(&self, ctx: &Ctx, idx: u64, st: &mut Stats) -> CaseResult {
        let mut rng = ctx.rng_for(idx);
        let mut gp = profile_by_name(&ctx.profile);
        gp.max_chunk = 256;
        gp.max_sinc_len = 64;
        gp.max_oversampling = 64;
        gp.max_channels = 2;
        let mut cfg = gen_cfg(&mut rng, &gp);
        if cfg.kind.is_async() && rng.chance(0.5) {
            // hostile operands for the bound computation
            cfg.ratio = match rng.ui(0, 3) {
                0 => *rng.pick(&[0.1, 0.3, 0.7, 1.1, 1.0 / 3.0, 2.0 / 3.0, 0.9, 1.7, 10.0 / 3.0]),
                _ => rng.logf(1.0 / 16.0, 16.0),
            };
            cfg.max_rel = match rng.ui(0, 3) {
                0 => *rng.pick(&[3.0, 1.1, 7.0, 10.0, 1.5, 2.5, 1.3]),
                1 => 1.0,
                _ => rng.logf(1.0, 16.0),
            };
        }
        let n_calls = rng.ui(10, 60);
        let s1 = rng.next();
        let mut script = J::arr();
        // 10 %: the calls go through the object-safe wrapper (which has no set_chunk_size); the twin stays direct
        let boxed = rng.chance(0.1);
        let desc0 = J::obj().with("sample", J::s(T::NAME)).with("cfg", cfg.json()).with("signal_seed", J::Int(s1 as i128)).with("through_boxed_vecresampler", J::b(boxed));
        set_desc(&desc0);
        let mut cr = CaseResult { desc: desc0.clone(), ..Default::default() };
        if ctx.describe {
            cr.desc = desc0.with("calls", J::s("setter script is generated while running (deterministic in seed/idx)"));
            return cr;
        }
        let mut a = match if boxed { Runner::<T>::fresh_boxed(&cfg, Sig::noise(s1)) } else { Runner::<T>::fresh(&cfg, Sig::noise(s1)) } {
            Ok(r) => r,
            Err(e) => {
                cr.inconclusive = Some(e);
                return cr;
            }
        };
        // twin that only sees the accepted calls
        let mut b = Runner::<T>::fresh_direct(&cfg, Sig::noise(s1)).unwrap();
        let (lo, hi) = (cfg.lo(), cfg.hi());
        let (rlo, rhi) = (1.0 / cfg.max_rel, cfg.max_rel);
        let proc_op = Op::Proc { path: Path::Exact, slack_in: 0, slack_out: 0, mask: None, empty_inactive: false };
        let is_async = cfg.kind.is_async();
        let is_sinc = cfg.kind.is_sinc();
        let mut twin_ok = true;
        for c in 0..n_calls {
            let which = rng.ui(0, 10);
            let which = if boxed && which >= 7 { which - 7 } else { which };
            let ramp = rng.bool();
            if which < 4 {
                // set_resample_ratio
                let v = if is_async { gen_arg(&mut rng, lo, hi) } else { gen_arg(&mut rng, 0.5, 2.0) };
                let op = Op::SetRatio { v, ramp, rel: false };
                script.push(op.json());
                let so = a.step(&op);
                st.add("set_ratio_calls", 1.0);
                if !is_async {
                    if so.res != Err("SyncNotAdjustable".to_string()) {
                        cr.viols.push(Viol::new("C12", "sync_adjustable", format!("call {}: set_resample_ratio({:?}) on a synchronous resampler returned {:?}", c, v, so.res)));
                    }
                } else {
                    let ex = classify(v, lo, hi);
                    st.add(&format!("ratio_arg.{:?}", ex), 1.0);
                    if feq(v, lo) || feq(v, hi) {
                        st.add("exact_bound_calls", 1.0);
                    }
                    self.judge(&mut cr, c, &format!("set_resample_ratio({:?}, {})", v, ramp), ex, &so, v, &cfg, lo, hi);
                    if so.res.is_ok() {
                        b.step(&op);
                    }
                }
                if so.before != so.after && so.res.is_err() {
                    cr.viols.push(Viol::new("C12", "rejected_call_changed_getters", format!("call {}: {:?} -> {:?}", c, so.before, so.after)));
                }
            } else if which < 7 {
                let x = if is_async { gen_arg(&mut rng, rlo, rhi) } else { gen_arg(&mut rng, 0.5, 2.0) };
                let op = Op::SetRatio { v: x, ramp, rel: true };
                script.push(op.json());
                let so = a.step(&op);
                st.add("set_ratio_relative_calls", 1.0);
                if !is_async {
                    if so.res != Err("SyncNotAdjustable".to_string()) {
                        cr.viols.push(Viol::new("C12", "sync_adjustable", format!("call {}: set_resample_ratio_relative({:?}) on a synchronous resampler returned {:?}", c, x, so.res)));
                    }
                } else {
                    let ex = classify(x, rlo, rhi);
                    st.add(&format!("relative_arg.{:?}", ex), 1.0);
                    if feq(x, rlo) || feq(x, rhi) {
                        st.add("exact_bound_calls", 1.0);
                    }
                    self.judge(&mut cr, c, &format!("set_resample_ratio_relative({:?}, {})", x, ramp), ex, &so, cfg.ratio * x, &cfg, lo, hi);
                    if so.res.is_ok() {
                        // "then behaves as set_resample_ratio(original * x)"; the product may round
                        // an ulp outside the absolute interval, where the absolute setter is
                        // allowed to refuse: use the nearest in-range value for the twin then
                        let prod = cfg.ratio * x;
                        if prod >= lo && prod <= hi {
                            let sb = b.step(&Op::SetRatio { v: prod, ramp, rel: false });
                            if sb.res.is_err() {
                                cr.viols.push(Viol::new("C12", "in_range_rejected", format!("call {}: set_resample_ratio({:?}) (= original*{:?}) rejected: {:?}", c, prod, x, sb.res)));
                            }
                        } else {
                            // the rounded product left the absolute interval by an ulp: either
                            // treatment is legitimate, so the twin is no longer comparable
                            b.step(&Op::SetRatio { v: prod.clamp(lo, hi), ramp, rel: false });
                            twin_ok = false;
                            st.add("relative_product_rounded_outside", 1.0);
                        }
                        st.add("relative_vs_absolute_twins", 1.0);
                    }
                }
                if so.before != so.after && so.res.is_err() {
                    cr.viols.push(Viol::new("C12", "rejected_call_changed_getters", format!("call {}: {:?} -> {:?}", c, so.before, so.after)));
                }
            } else if which < 9 {
                let n = match rng.ui(0, 7) {
                    0 => 0,
                    1 => cfg.chunk + 1,
                    2 => usize::MAX,
                    3 => cfg.chunk,
                    4 => 1,
                    5 => cfg.chunk + rng.ui(1, 100000),
                    _ => rng.ui(1, cfg.chunk),
                };
                let op = Op::SetChunk(n);
                script.push(op.json());
                let so = a.step(&op);
                st.add("set_chunk_size_calls", 1.0);
                if !is_sinc {
                    if so.res != Err("ChunkSizeNotAdjustable".to_string()) {
                        cr.viols.push(Viol::new("C12", "chunk_adjustable", format!("call {}: set_chunk_size({}) on {} returned {:?}", c, n, cfg.kind.name(), so.res)));
                    }
                } else if n >= 1 && n <= cfg.chunk {
                    if so.res.is_err() {
                        cr.viols.push(Viol::new("C12", "valid_chunk_rejected", format!("call {}: set_chunk_size({}) (max {}) returned {:?}", c, n, cfg.chunk, so.res)));
                    } else {
                        b.step(&op);
                        let got = if cfg.kind == Kind::SincIn { so.after.in_next } else { so.after.out_next };
                        if got != n {
                            cr.viols.push(Viol::new("C12", "chunk_not_applied", format!("call {}: after set_chunk_size({}) the next call would use {}", c, n, got)));
                        }
                        st.add("accepted_chunk_changes", 1.0);
                    }
                } else {
                    let want = format!("InvalidChunkSize{{max:{},requested:{}}}", cfg.chunk, n);
                    if so.res != Err(want.clone()) {
                        cr.viols.push(Viol::new("C12", "invalid_chunk_accepted", format!("call {}: set_chunk_size({}) returned {:?}, expected {}", c, n, so.res, want)));
                    }
                    if so.before != so.after {
                        cr.viols.push(Viol::new("C12", "rejected_call_changed_getters", format!("call {}: {:?} -> {:?}", c, so.before, so.after)));
                    }
                }
            }
            if which == 10 {
                // reset() on both twins: the documented intervals and the construction-time chunk size apply
                // again, whatever was set before
                script.push(Op::Reset.json());
                a.step(&Op::Reset);
                b.step(&Op::Reset);
                st.add("resets_between_setter_calls", 1.0);
            }
            if !cr.viols.is_empty() {
                break;
            }
            // a processing call on both twins: rejected calls must have left no trace
            if rng.chance(0.5) || c + 1 == n_calls {
                script.push(proc_op.json());
                let sa = a.step(&proc_op);
                let sb = b.step(&proc_op);
                st.add("compared_process_calls", 1.0);
                if is_sinc {
                    if let Ok((i, o)) = sa.res {
                        let got = if cfg.kind == Kind::SincIn { i } else { o };
                        if got != a.model.chunk {
                            cr.viols.push(Viol::new("C12", "chunk_not_applied", format!("call {}: processing used {} frames, chunk size was set to {}", c, got, a.model.chunk)));
                        }
                    }
                }
                if let Some(d) = diff_steps(&sa, &sb, true).filter(|_| twin_ok) {
                    cr.viols.push(Viol::new("C12", "rejected_call_left_a_trace", format!("after call {}: processing differs from the twin that only saw the accepted calls: {}", c, d)));
                    break;
                }
            }
        }
        if a.findings.iter().chain(b.findings.iter()).any(|f| f.prop == "C03") {
            cr.inconclusive = Some("C03 event in this history".into());
        }
        st.add(&format!("cases.{}", cfg.kind.name()), 1.0);
        if boxed {
            st.add("cases_through_boxed_vecresampler", 1.0);
        }
        cr.desc = desc0.with("calls", script);
        cr.class = Some(format!("{}|{}|{}", T::NAME, cfg.class(), idx % 64));
        cr
    }

    #[allow(clippy::too_many_arguments)]
    fn judge<T: Smp>(&self, cr: &mut CaseResult, c: usize, what: &str, ex: Expect, so: &StepOut<T>, provided: f64, cfg: &Cfg, lo: f64, hi: f64) {
        match (&so.res, ex) {
            (Ok(_), Expect::Reject) => cr.viols.push(Viol::new(
                "C12",
                "out_of_range_accepted",
                format!("call {}: {} accepted; documented interval [{:?}, {:?}] (original {:?}, max {:?})", c, what, lo, hi, cfg.ratio, cfg.max_rel),
            )),
            (Err(e), Expect::Accept) => cr.viols.push(Viol::new(
                "C12",
                "in_range_rejected",
                format!("call {}: {} rejected with {}; documented interval [{:?}, {:?}] (original {:?}, max {:?})", c, what, e, lo, hi, cfg.ratio, cfg.max_rel),
            )),
            _ => {}
        }
        if let Err(e) = &so.res {
            let want = format!("RatioOutOfBounds{{provided:{:?},original:{:?},max_relative_ratio:{:?}}}", provided, cfg.ratio, cfg.max_rel);
            if *e != want {
                cr.viols.push(Viol::new("C12", "wrong_error", format!("call {}: {} returned {}, expected {}", c, what, e, want)));
            }
        }
        let _ = (next_up(1.0), next_down(1.0));
    }
}

impl Monitor for Setters {
    fn name(&self) -> &'static str {
        "set"
    }
    fn budget(&self, ctx: &Ctx) -> u64 {
        if ctx.tier == Tier::Quick {
            20_000
        } else {
            400_000
        }
    }
    fn case(&self, ctx: &Ctx, idx: u64, st: &mut Stats) -> CaseResult {
        let mut r = Rng::derive(&[ctx.seed, idx, 0x7e57]);
        if r.bool() {
            self.case_t::<f32>(ctx, idx, st)
        } else {
            self.case_t::<f64>(ctx, idx, st)
        }
    }
}
