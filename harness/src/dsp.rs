//! Small DSP toolbox for the oracles: radix-2 FFT, magnitude response of an impulse response,
//! least-squares multi-tone fit.  Independent of the FFT library used by the code under test.

use std::f64::consts::PI;

pub fn next_pow2(n: usize) -> usize {
    let mut m = 1;
    while m < n {
        m <<= 1;
    }
    m
}

/// in-place iterative radix-2 FFT (length must be a power of two)
pub fn fft(re: &mut [f64], im: &mut [f64]) {
    let n = re.len();
    assert!(n.is_power_of_two() && im.len() == n);
    // bit reversal
    let mut j = 0usize;
    for i in 1..n {
        let mut bit = n >> 1;
        while j & bit != 0 {
            j ^= bit;
            bit >>= 1;
        }
        j |= bit;
        if i < j {
            re.swap(i, j);
            im.swap(i, j);
        }
    }
    let mut len = 2;
    while len <= n {
        let ang = -2.0 * PI / len as f64;
        // twiddles by direct evaluation per butterfly group (accuracy over speed)
        let half = len / 2;
        let tw: Vec<(f64, f64)> = (0..half).map(|k| ((ang * k as f64).cos(), (ang * k as f64).sin())).collect();
        let mut i = 0;
        while i < n {
            for k in 0..half {
                let (wr, wi) = tw[k];
                let (ur, ui) = (re[i + k], im[i + k]);
                let (xr, xi) = (re[i + k + half], im[i + k + half]);
                let (vr, vi) = (xr * wr - xi * wi, xr * wi + xi * wr);
                re[i + k] = ur + vr;
                im[i + k] = ui + vi;
                re[i + k + half] = ur - vr;
                im[i + k + half] = ui - vi;
            }
            i += len;
        }
        len <<= 1;
    }
}

/// |H| at bins 0..=m/2 of the m-point DFT of h (zero-padded); m power of two >= h.len()
pub fn mag_response(h: &[f64], m: usize) -> Vec<f64> {
    let mut re = vec![0.0; m];
    let mut im = vec![0.0; m];
    re[..h.len()].copy_from_slice(h);
    fft(&mut re, &mut im);
    (0..=m / 2).map(|k| (re[k] * re[k] + im[k] * im[k]).sqrt()).collect()
}

/// exact DTFT magnitude at one frequency (cycles per sample of h)
pub fn dtft_mag(h: &[f64], f: f64) -> f64 {
    let (mut sr, mut si) = (0.0, 0.0);
    for (n, v) in h.iter().enumerate() {
        let a = -2.0 * PI * f * n as f64;
        sr += v * a.cos();
        si += v * a.sin();
    }
    (sr * sr + si * si).sqrt()
}

pub struct Fit {
    /// per tone: cosine and sine coefficients  y ~ sum a_k cos(2 pi g_k j) + b_k sin(2 pi g_k j) + c
    pub a: Vec<f64>,
    pub b: Vec<f64>,
    pub c: f64,
    pub resid_rms: f64,
    pub resid_peak: f64,
}

impl Fit {
    pub fn amp(&self, k: usize) -> f64 {
        (self.a[k] * self.a[k] + self.b[k] * self.b[k]).sqrt()
    }
    /// phase p such that the component is amp*cos(2 pi g j + p)
    pub fn phase(&self, k: usize) -> f64 {
        (-self.b[k]).atan2(self.a[k])
    }
}

/// Least-squares fit of known frequencies (cycles per sample of y) plus a constant.
/// `j0` = index of y[0] in the stream (phases refer to absolute frame numbers).
pub fn fit_tones(y: &[f64], j0: f64, freqs: &[f64]) -> Option<Fit> {
    let k = freqs.len();
    let m = 2 * k + 1;
    let n = y.len();
    // basis evaluated by rotation recurrences restarted every 64 samples (accuracy)
    let mut g = vec![0.0f64; m * m];
    let mut rhs = vec![0.0f64; m];
    let mut basis = vec![0.0f64; m];
    for (j, yv) in y.iter().enumerate() {
        let t = j0 + j as f64;
        for (i, f) in freqs.iter().enumerate() {
            let ph = 2.0 * PI * (f * t).fract();
            basis[2 * i] = ph.cos();
            basis[2 * i + 1] = ph.sin();
        }
        basis[m - 1] = 1.0;
        for r in 0..m {
            rhs[r] += basis[r] * yv;
            for c in r..m {
                g[r * m + c] += basis[r] * basis[c];
            }
        }
    }
    for r in 0..m {
        for c in 0..r {
            g[r * m + c] = g[c * m + r];
        }
    }
    // Gaussian elimination with partial pivoting
    let mut a = g;
    let mut x = rhs;
    for col in 0..m {
        let mut piv = col;
        for r in col + 1..m {
            if a[r * m + col].abs() > a[piv * m + col].abs() {
                piv = r;
            }
        }
        if a[piv * m + col].abs() < 1e-9 * n as f64 {
            return None;
        }
        if piv != col {
            for c in 0..m {
                a.swap(col * m + c, piv * m + c);
            }
            x.swap(col, piv);
        }
        for r in col + 1..m {
            let f = a[r * m + col] / a[col * m + col];
            if f != 0.0 {
                for c in col..m {
                    a[r * m + c] -= f * a[col * m + c];
                }
                x[r] -= f * x[col];
            }
        }
    }
    for col in (0..m).rev() {
        let mut s = x[col];
        for c in col + 1..m {
            s -= a[col * m + c] * x[c];
        }
        x[col] = s / a[col * m + col];
    }
    let mut fa = vec![0.0; k];
    let mut fb = vec![0.0; k];
    for i in 0..k {
        fa[i] = x[2 * i];
        fb[i] = x[2 * i + 1];
    }
    let c0 = x[m - 1];
    let (mut ss, mut pk) = (0.0f64, 0.0f64);
    for (j, yv) in y.iter().enumerate() {
        let t = j0 + j as f64;
        let mut v = c0;
        for (i, f) in freqs.iter().enumerate() {
            let ph = 2.0 * PI * (f * t).fract();
            v += fa[i] * ph.cos() + fb[i] * ph.sin();
        }
        let e = yv - v;
        ss += e * e;
        pk = pk.max(e.abs());
    }
    Some(Fit { a: fa, b: fb, c: c0, resid_rms: (ss / n as f64).sqrt(), resid_peak: pk })
}

pub fn db(x: f64) -> f64 {
    20.0 * x.max(1e-300).log10()
}
pub fn undb(d: f64) -> f64 {
    10f64.powf(d / 20.0)
}
