//! DSP monitors for C01 (pass-band fidelity) and C02 (stop-band rejection).
//!
//!   ir    Layer A: impulse-response extraction (M-IR) from the live resampler and structure /
//!         magnitude checks on the prototype filter the resampler really uses.
//!   band  Layer B: end-to-end tone runs through the real resamplers with a least-squares
//!         multi-tone fit (M-FIT): amplitude, common delay, residual (C01); phase-averaged
//!         stop-band output power and image residual (C02).
//!
//! Notation: r ratio, L sinc length, N oversampling, cc = calculate_cutoff(L, window),
//! m = min(1, r); in cycles per input sample: pass edge = (fc*m - (1-cc))/2,
//! stop edge = (fc*m + (1-cc))/2  (the property's edges are the same, relative to the lower Nyquist).

use crate::any::AnyRes;
use crate::cfg::*;
use crate::dsp::*;
use crate::json::J;
use crate::mon::*;
use crate::rng::Rng;
use crate::run::*;
use crate::sig::{Sig, SigKind};
use std::f64::consts::PI;

// ------------------------------------------------------------------------------------------
// M-IR

/// Extract the prototype impulse response (L*N taps, time reversed, trimmed of zero ends)
/// from a live SincFixedIn built for `r0`, by driving it at ratio = N in Nearest mode.
pub fn extract_ir<T: Smp>(len: usize, n: usize, win: Win, fc: f32, r0: f64) -> Result<Vec<f64>, String> {
    let mut cfg = Cfg::default();
    cfg.kind = Kind::SincIn;
    cfg.ratio = r0;
    cfg.max_rel = (n as f64 / r0).max(1.0) * 1.001;
    cfg.sinc_len = len;
    cfg.oversampling = n;
    cfg.interp = Interp::Nearest;
    cfg.window = win;
    cfg.f_cutoff = fc;
    cfg.chunk = 64;
    cfg.channels = 1;
    let mut r = AnyRes::<T>::build(&cfg).map_err(|e| format!("{}", e))?;
    r.set_resample_ratio(n as f64, false).map_err(|e| crate::any::err_repr(&e))?;
    let l = cfg.flen();
    let p0 = 2 * l + 5;
    let total_in = p0 + 3 * l + 2 * cfg.chunk;
    let mut out: Vec<f64> = Vec::with_capacity(total_in * n + 1024);
    let mut wo = r.output_buffer_allocate(true);
    let mut pos = 0usize;
    while pos < total_in {
        let ni = r.input_frames_next();
        let mut wi = vec![vec![T::of64(0.0); ni]];
        if p0 >= pos && p0 < pos + ni {
            wi[0][p0 - pos] = T::of64(1.0);
        }
        let (_, o) = r.process_into_buffer(&wi, &mut wo, None).map_err(|e| crate::any::err_repr(&e))?;
        out.extend(wo[0][..o].iter().map(|v| v.f64()));
        pos += ni;
    }
    let first = out.iter().position(|v| *v != 0.0).ok_or("impulse response is all zero")?;
    let last = out.iter().rposition(|v| *v != 0.0).unwrap();
    if last - first + 1 > l * n {
        return Err(format!("impulse response support {} exceeds L*N = {}", last - first + 1, l * n));
    }
    Ok(out[first..=last].to_vec())
}

pub struct Ir;

impl Monitor for Ir {
    fn name(&self) -> &'static str {
        "ir"
    }
    fn budget(&self, ctx: &Ctx) -> u64 {
        // cases enumerate (window, L) exhaustively: 6 windows x 253 lengths in thorough
        if ctx.tier == Tier::Quick {
            6 * 64
        } else {
            6 * 253
        }
    }
    fn case(&self, ctx: &Ctx, idx: u64, st: &mut Stats) -> CaseResult {
        let mut rng = ctx.rng_for(idx);
        let win = ALL_WIN[(idx % 6) as usize];
        let li = (idx / 6) as usize;
        // thorough: every multiple of 8 in [32, 2048]; quick: every 4th of them, offset by the seed
        let len = if ctx.tier == Tier::Quick { 32 + 8 * ((li * 4 + (ctx.seed as usize % 4)) % 253) } else { 32 + 8 * (li % 253) };
        let cc = win.cutoff(len);
        let variant = if len <= 512 { rng.ui(0, 4) } else { 0 };
        let (fc, r0) = match variant {
            0 => (cc as f32, 1.0),
            1 => ((0.7 * cc) as f32, 1.0),
            2 => ((0.9 * cc) as f32, 1.0),
            3 => (cc as f32, *rng.pick(&[0.5, 0.25, 0.75, 1.0 / 3.0])),
            // construction ratios above 1 must leave the cutoff alone
            _ => (*rng.pick(&[cc as f32, (0.9 * cc) as f32]), *rng.pick(&[1.5, 2.0, 48000.0 / 44100.0, 3.7])),
        };
        let n: usize = if len > 1024 { 8 } else { 16 };
        let desc = J::obj().with("window", J::s(win.name())).with("sinc_len", J::u(len)).with("note", J::s("30% of the cases request a length 1..7 below sinc_len; it must be rounded up")).with("oversampling", J::u(n)).with("f_cutoff", J::f(fc as f64)).with("construction_ratio", J::f(r0)).with("calculate_cutoff", J::f(cc));
        set_desc(&desc);
        let mut cr = CaseResult { desc, ..Default::default() };
        if ctx.describe {
            return cr;
        }
        // the requested length may be any value that rounds up to `len`
        let len_req = if rng.chance(0.3) { len - rng.ui(1, 7) } else { len };
        let h = match extract_ir::<f64>(len_req, n, win, fc, r0) {
            Ok(h) => h,
            Err(e) => {
                cr.viols.push(Viol::new("C01", "impulse_response_extraction", e));
                return cr;
            }
        };
        let fcd = fc as f64;
        let m = r0.min(1.0);
        let nf = n as f64;
        // (1) linear phase: symmetric about its peak, which must sit in the middle
        // (the periodic windows are zero or ~1e-17 at x = 0, so the support is L*N or L*N-1 taps)
        let hmax = h.iter().fold(0.0f64, |a, b| a.max(b.abs()));
        let c = h.iter().position(|v| v.abs() == hmax).unwrap();
        let mut asym = 0.0f64;
        let ext = c.min(h.len() - 1 - c);
        for i in 1..=ext {
            asym = asym.max((h[c - i] - h[c + i]).abs());
        }
        st.max("worst_asymmetry_over_max_tap", asym / hmax);
        let off_centre = (h.len() as i64 - 1 - 2 * c as i64).abs();
        if asym > 64.0 * f64::EPSILON * hmax || off_centre > 1 {
            cr.viols.push(Viol::new("C01", "impulse_response_not_symmetric", format!("{} L={} : asymmetry {:e} about the peak (max tap {:e}), peak at tap {} of {} (linear phase lost)", win.name(), len, asym, hmax, c, h.len())));
        }
        // (2) every polyphase branch has unit DC gain (no image of DC)
        let total: f64 = h.iter().sum();
        let mut worst_branch = 0.0f64;
        for b in 0..n {
            let s: f64 = h.iter().skip(b).step_by(n).sum();
            worst_branch = worst_branch.max((s - 1.0).abs());
        }
        st.max("worst_branch_dc_error", worst_branch);
        if worst_branch > undb(-win.leak_db().min(win.stop_db() + 20.0)) * 4.0 + 1e-12 {
            cr.viols.push(Viol::new("C01", "branch_dc_gain", format!("{} L={}: a polyphase branch sums to 1{:+e}", win.name(), len, worst_branch)));
        }
        if (total / nf - 1.0).abs() > 1e-9 {
            cr.viols.push(Viol::new("C01", "dc_gain", format!("{} L={}: DC gain {}", win.name(), len, total / nf)));
        }
        // magnitude response on a grid of 1/(16 L) cycles per input sample
        let mfft = next_pow2(16 * len * n);
        let mag = mag_response(&h, mfft);
        let fbin = |k: usize| k as f64 * nf / mfft as f64; // cycles per input sample
        let kof = |f: f64| (f * mfft as f64 / nf).round() as usize;
        let pass_edge = 0.5 * (fcd * m - (1.0 - cc));
        let stop_edge = 0.5 * (fcd * m + (1.0 - cc));
        // C02: stop band
        let k0 = kof(stop_edge) + 1;
        let mut worst_stop = 0.0f64;
        let mut worst_f = 0.0;
        for k in k0..mag.len() {
            let v = mag[k] / nf;
            if v > worst_stop {
                worst_stop = v;
                worst_f = fbin(k);
            }
        }
        let margin = -db(worst_stop) - win.stop_db();
        st.min(&format!("stopband_margin_db.{}", win.name()), margin);
        if margin < 0.0 {
            cr.viols.push(Viol::new(
                "C02",
                "prototype_stopband",
                format!("{} L={} fc={} r0={}: |H| = {:.1} dB at {} cycles/sample (stop edge {}), figure -{} dB", win.name(), len, fc, r0, db(worst_stop), worst_f, stop_edge, win.stop_db()),
            ));
        }
        // C02: -6 dB point at f_cutoff
        let g6 = dtft_mag(&h, 0.5 * fcd * m / nf) / nf;
        st.max("worst_gain_at_cutoff_deviation", (g6 - 0.5).abs());
        // the statement places the -6 dB point at f_cutoff for ratios >= 1; for construction ratios below 1
        // with short filters the scaled cut-off can be narrower than the main lobe (BlackmanHarris2, L=40,
        // r0=0.25: 0.5146 on the unchanged tree), so there it is only recorded
        if r0 >= 1.0 && !(0.49..=0.51).contains(&g6) {
            cr.viols.push(Viol::new("C02", "minus_6db_point", format!("{} L={} fc={} r0={}: gain at f_cutoff is {:.4}, expected 0.5", win.name(), len, fc, r0, g6)));
        }
        // C01: pass-band ripple
        if pass_edge > 0.0 {
            let k1 = kof(pass_edge).saturating_sub(1);
            let mut ripple = 0.0f64;
            for k in 0..=k1 {
                ripple = ripple.max((mag[k] / nf - 1.0).abs());
            }
            st.max(&format!("passband_ripple.{}", win.name()), ripple);
            if ripple > win.amp_tol() {
                cr.viols.push(Viol::new("C01", "prototype_passband_ripple", format!("{} L={} fc={} r0={}: pass-band deviation {:.2e} > {}", win.name(), len, fc, r0, ripple, win.amp_tol())));
            }
            // C01: image bands around the multiples of the input rate (absolute figure only for fc <= 0.9 cc)
            let mut worst_img = 0.0f64;
            for mm in 1..=(n / 2) {
                let lo = kof(mm as f64 - pass_edge);
                let hi = kof(mm as f64 + pass_edge).min(mag.len() - 1);
                for k in lo..=hi {
                    worst_img = worst_img.max(mag[k] / nf);
                }
            }
            let fig = if fcd <= 0.9 * cc * 1.0001 { win.leak_db() } else { win.stop_db() };
            let margin = -db(worst_img) - fig;
            st.min(&format!("image_leak_margin_db.{}{}", win.name(), if fcd <= 0.9 * cc * 1.0001 { "" } else { ".edge" }), margin);
            if margin < 0.0 {
                cr.viols.push(Viol::new("C01", "prototype_image_leak", format!("{} L={} fc={} r0={}: images of the pass band at {:.1} dB, figure -{} dB", win.name(), len, fc, r0, db(worst_img), fig)));
            }
        }
        st.add("impulse_responses_extracted", 1.0);
        st.add("taps_extracted", h.len() as f64);
        st.distinct("sinc_lengths", &format!("{}", len));
        cr.class = Some(format!("{}|{}|{}", win.name(), len, variant));
        cr
    }
}

// ------------------------------------------------------------------------------------------
// Layer B

pub struct Band;

fn textbook(interp: Interp, a: f64, f_abs: f64, n: usize) -> f64 {
    let wh = 2.0 * PI * f_abs / n as f64;
    match interp {
        Interp::Nearest => a * wh / 2.0,
        Interp::Linear => a * wh * wh / 8.0,
        Interp::Quadratic => a * wh.powi(3) / (9.0 * 3f64.sqrt()),
        Interp::Cubic => 3.0 * a * wh.powi(4) / 128.0,
    }
}

struct RunOut {
    y: Vec<f64>,
    j0: usize,
}

/// run the stream and return a steady-state segment of `n_seg` output frames
/// `resize`: Some(seed) = the chunk size is changed between calls (set_chunk_size, asynchronous types
/// only) on a random schedule; the stream, and with it every figure measured on it, must not care
fn run_tones<T: Smp>(cfg: &Cfg, tones: &[(f64, f64, f64)], n_seg: usize, skip_out: usize, resize: Option<u64>, life: Option<u64>) -> Result<RunOut, String> {
    let mut run = Runner::<T>::fresh(cfg, Sig { seed: 0, kind: SigKind::Tones(tones.to_vec()) })?;
    run.check_alloc = false;
    if let Some(s) = life {
        earlier_life(&mut run, &mut crate::rng::Rng::derive(&[s, 0x11fe]));
    }
    // the cases that permit ratio changes: set_resample_ratio_relative(1.0) before the stream - by the documentation a no-op
    if cfg.max_rel > 1.0 {
        noop_relative(&mut run);
    }
    let op = Op::Proc { path: Path::Exact, slack_in: 0, slack_out: 0, mask: None, empty_inactive: false };
    let mut out: Vec<f64> = Vec::with_capacity(skip_out + n_seg + 8192);
    let mut calls = 0;
    let mut rs = resize.map(|s| crate::rng::Rng::derive(&[s, 0x5153]));
    while out.len() < skip_out + n_seg && calls < 4_000_000 {
        if let Some(r) = rs.as_mut() {
            if r.chance(0.3) {
                let n = r.logi((cfg.chunk / 16).max(1), cfg.chunk);
                run.step(&Op::SetChunk(n));
            }
        }
        // with an earlier-life seed of the right parity the buffers are longer than required: the input slices
        // carry up to two further blocks (NaN poison - must never be read), the output buffers up to 17 frames
        let stepped = crate::mon::guarded(|| match (life, rs.is_some()) {
            (Some(s), false) if s % 2 == 1 => {
                let extra = if cfg.kind.is_fft() { 2 * cfg.fft_sizes().0 + 8 } else { 2 * cfg.chunk + 8 }.min(20_000);
                let k = (crate::rng::mix(&[s, calls as u64]) % (extra as u64 + 1)) as usize;
                run.step(&Op::Proc { path: Path::Slack, slack_in: k, slack_out: (k % 18), mask: None, empty_inactive: false })
            }
            _ => run.step(&op),
        });
        let so = match stepped {
            Ok(so) => so,
            Err(p) => return Err(format!("PANIC {}", p)),
        };
        calls += 1;
        match so.res {
            Ok(_) => out.extend(so.out[0].iter().map(|v| v.f64())),
            Err(e) => return Err(e),
        }
    }
    if out.len() < skip_out + n_seg {
        return Err("stream too short".into());
    }
    if let Some(j) = out[skip_out..skip_out + n_seg].iter().position(|v| !v.is_finite()) {
        return Err(format!("NONFINITE output frame {} is {}", skip_out + j, out[skip_out + j]));
    }
    Ok(RunOut { y: out[skip_out..skip_out + n_seg].to_vec(), j0: skip_out })
}

impl Band {
    fn case_t<T: Smp>(&self, ctx: &Ctx, idx: u64, st: &mut Stats) -> CaseResult {
        let mut rng = ctx.rng_for(idx);
        let want_c02 = ctx.prop == "C02" || (ctx.prop == "*" && rng.bool());
        let mut gp = GenProfile::standard().with_kinds(&[Kind::SincIn, Kind::SincOut, Kind::FftIn, Kind::FftOut, Kind::FftInOut]);
        gp.max_channels = 1;
        gp.max_fft_block = 4096;
        gp.max_chunk = 2048;
        let mut cfg = gen_cfg(&mut rng, &gp);
        if cfg.kind.is_fft() {
            // the built-in low-pass is a windowed sinc of the FFT block length; calculate_cutoff is
            // documented for lengths 32..2048 only, shorter blocks cannot reach the figures
            let mut tries = 0;
            while {
                let (fi, fo) = cfg.fft_sizes();
                fi.min(fo) < 32
            } && tries < 50
            {
                tries += 1;
                cfg.chunk = rng.logi(32, 4096);
                let (a, b) = gen_rate_pair(&mut rng);
                cfg.fs_in = a;
                cfg.fs_out = b;
            }
            let (fi, fo) = cfg.fft_sizes();
            if fi.min(fo) < 32 || fi.max(fo) > 16384 {
                let desc = J::obj().with("cfg", cfg.json()).with("note", J::s("FFT block outside [32, 16384]"));
                st.add("trivial_fft_block_out_of_domain", 1.0);
                return CaseResult { desc, ..Default::default() };
            }
        }
        cfg.channels = 1;
        cfg.max_rel = 1.0;
        // 30 % of the sinc cases allow ratio changes wide enough that the absolute ratio 1.0 is permitted too;
        // they call set_resample_ratio_relative(1.0) before the stream (see noop_relative)
        if cfg.kind.is_sinc() && cfg.ratio > 0.125 && cfg.ratio < 8.0 && rng.chance(0.3) {
            cfg.max_rel = cfg.ratio.max(1.0 / cfg.ratio) * rng.uf(1.01, 2.0);
        }
        if cfg.kind.is_sinc() {
            cfg.sinc_len = 8 * rng.ui(8, 64); // [64, 512]
            if rng.chance(0.3) {
                // documented: 'rounded up to the nearest multiple of 8' - all edges below use the rounded-up length
                cfg.sinc_len -= rng.ui(1, 7);
            }
            let cc = cfg.window.cutoff(cfg.flen());
            cfg.f_cutoff = match rng.ui(0, 3) {
                0 => cc as f32,
                1 => (0.9 * cc) as f32,
                2 => 0.95f32.min(cc as f32),
                _ => (rng.uf(0.6, 1.0) * cc) as f32,
            };
            cfg.oversampling = match cfg.interp {
                Interp::Cubic | Interp::Quadratic => rng.logi(2, 2048),
                _ => rng.logi(1, 2048),
            };
            while cfg.flen() * cfg.oversampling > 300_000 {
                cfg.oversampling /= 2;
            }
        }
        let r = cfg.r();
        let m = r.min(1.0);
        let (pass_edge, stop_edge, l_eff, cc);
        if cfg.kind.is_sinc() {
            cc = cfg.window.cutoff(cfg.flen());
            let fc = cfg.f_cutoff as f64;
            pass_edge = 0.5 * (fc * m - (1.0 - cc));
            stop_edge = 0.5 * (fc * m + (1.0 - cc));
            l_eff = cfg.flen();
        } else {
            let (fi, fo) = cfg.fft_sizes();
            cc = Win::BlackmanHarris2.cutoff(fi.min(fo));
            pass_edge = 0.5 * (2.0 * cc - 1.0) * m;
            stop_edge = 0.5 * m;
            l_eff = fi;
        }
        let n_seg: usize = *rng.pick(&[4096usize, 8192, 16384]);
        let delay = AnyRes::<T>::build(&cfg).map(|r| r.output_delay()).unwrap_or(0);
        let skip_out = delay + (2.0 * l_eff as f64 * r.max(1.0)) as usize + 2 * (cfg.chunk as f64 * r.max(1.0)) as usize + 64;
        let k_f32 = if cfg.kind.is_sinc() { 16.0 + cfg.flen() as f64 / 2.0 } else { 64.0 + 16.0 * ((2 * l_eff.max(cfg.fft_sizes().1)) as f64).log2() };
        let floor = if T::IS32 { k_f32 * (f32::EPSILON as f64) } else { 1e-13 };
        // 15 % of the sinc cases change the chunk size between calls on a random schedule
        let resize = if cfg.kind.is_sinc() && rng.chance(0.15) { Some(rng.next()) } else { None };
        // 12 %: the instance has had an earlier life (setters, some calls) and was reset() before the stream
        let life = if rng.chance(0.12) { Some(rng.next()) } else { None };
        let mut desc = J::obj().with("sample", J::s(T::NAME)).with("cfg", cfg.json()).with("segment", J::u(n_seg)).with("skip", J::u(skip_out)).with("chunk_size_schedule_seed", resize.map(|v| J::Int(v as i128)).unwrap_or(J::Null)).with("earlier_life_seed", life.map(|v| J::Int(v as i128)).unwrap_or(J::Null));
        let mut cr = CaseResult::default();

        if !want_c02 {
            // ------------------------------ C01: pass-band tones
            let gsep = 16.0 / n_seg as f64; // output-domain separation (cycles per output sample)
            let gmax = pass_edge / r; // pass edge in cycles per output sample
            if pass_edge <= 0.0 || gmax < 3.0 * gsep {
                desc.set("note", J::s("empty or too narrow pass band"));
                cr.desc = desc;
                st.add("trivial_empty_passband", 1.0);
                return cr;
            }
            let kmax = ((gmax / gsep) as usize).saturating_sub(1).clamp(1, 4);
            let k = rng.ui(1, kmax);
            let mut gs: Vec<f64> = Vec::new();
            gs.push(0.999 * gmax);
            let mut tries = 0;
            while gs.len() < k && tries < 200 {
                tries += 1;
                let g = rng.uf(1.5 * gsep, gmax);
                if gs.iter().all(|x| (x - g).abs() >= gsep) {
                    gs.push(g);
                }
            }
            let tones: Vec<(f64, f64, f64)> = gs.iter().map(|g| (g * r, rng.uf(0.2, 1.0) / gs.len() as f64, rng.uf(0.0, 2.0 * PI))).collect();
            desc.set("tones_f_amp_phase", J::Arr(tones.iter().map(|t| J::Arr(vec![J::f(t.0), J::f(t.1), J::f(t.2)])).collect()));
            desc.set("pass_edge_cycles_per_input_sample", J::f(pass_edge));
            set_desc(&desc);
            cr.desc = desc;
            if ctx.describe {
                return cr;
            }
            let ro = match run_tones::<T>(&cfg, &tones, n_seg, skip_out, resize, life) {
                Ok(x) => x,
                Err(e) => {
                    if e.starts_with("NONFINITE") {
                        cr.viols.push(Viol::new("C01", "non_finite_output", format!("pass-band tones in, {} (steady-state segment)", e)));
                        return cr;
                    }
                    if e.starts_with("PANIC") && (life.is_some() || resize.is_some()) {
                        // the plain stream (fresh instance, exactly sized buffers, constant chunk size) for comparison
                        if run_tones::<T>(&cfg, &tones, n_seg, skip_out, None, None).is_ok() {
                            cr.viols.push(Viol::new("C01", "stream_fails_only_with_history_or_long_buffers", format!("pass-band tones in: the same stream completes on a fresh instance with exactly sized buffers, but with an earlier life + reset / longer buffers / chunk-size changes it ends with {}", e)));
                            return cr;
                        }
                    }
                    cr.inconclusive = Some(e);
                    return cr;
                }
            };
            let fit = match fit_tones(&ro.y, ro.j0 as f64, &gs) {
                Some(f) => f,
                None => {
                    cr.inconclusive = Some("singular fit".into());
                    return cr;
                }
            };
            let sig_rms = (tones.iter().map(|t| t.1 * t.1 / 2.0).sum::<f64>()).sqrt();
            let a_tot: f64 = tones.iter().map(|t| t.1).sum();
            // allowed spurious level
            let (leak_db, amp_tol, tb);
            if cfg.kind.is_sinc() {
                let absolute = (cfg.f_cutoff as f64) <= 0.9 * cc * 1.0001;
                leak_db = if absolute { cfg.window.leak_db() - 2.0 } else { cfg.window.stop_db() - 3.0 };
                amp_tol = cfg.window.amp_tol();
                tb = 2.0 * tones.iter().map(|t| textbook(cfg.interp, t.1, t.0, cfg.oversampling)).sum::<f64>();
            } else {
                leak_db = 150.0;
                amp_tol = 0.001;
                tb = 0.0;
            }
            let spur_allowed = undb(-leak_db) * sig_rms + tb + floor * a_tot;
            let ratio_res = fit.resid_rms / spur_allowed;
            st.max(&format!("c01_residual_over_bound.{}", T::NAME), ratio_res);
            if cfg.kind.is_sinc() {
                st.min(&format!("c01_residual_margin_db.{}.{}", cfg.window.name(), T::NAME), -db(ratio_res));
            } else {
                st.min(&format!("c01_residual_margin_db.fft.{}", T::NAME), -db(ratio_res));
            }
            if fit.resid_rms > spur_allowed {
                cr.viols.push(Viol::new(
                    "C01",
                    "spurious_content",
                    format!("residual after removing the {} pass-band tone(s): {:.1} dB re signal, allowed {:.1} dB (window leak -{} dB, 2x textbook interpolation bound {:.2e}, precision floor {:.1e})", gs.len(), db(fit.resid_rms / sig_rms), db(spur_allowed / sig_rms), leak_db, tb, floor),
                ));
            }
            // amplitudes
            let mut delays = Vec::new();
            for (i, t) in tones.iter().enumerate() {
                let a = fit.amp(i);
                let dev = (a / t.1 - 1.0).abs();
                // 25% guard band: on the unchanged tree the Hann prototype deviates by up to 1.09% right at the
                // pass edge when f_cutoff*min(1,ratio) is less than about twice the transition half-width
                let allowed = 1.25 * amp_tol + spur_allowed * 2.0 / t.1;
                st.max("c01_amplitude_deviation_over_tolerance", dev / allowed);
                if dev > allowed {
                    cr.viols.push(Viol::new("C01", "amplitude", format!("tone {} at {:.5} cycles/input sample (pass edge {:.5}): amplitude {:.6} instead of {:.6} ({:+.3}%), tolerance {:.3}%", i, t.0, pass_edge, a, t.1, 100.0 * (a / t.1 - 1.0), 100.0 * allowed)));
                }
                // delay in input samples: output j <-> input time j/r - d
                let ph_in = t.2;
                let ph_out = fit.phase(i);
                let mut d = (ph_in - ph_out) / (2.0 * PI * t.0);
                let period = 1.0 / t.0;
                let expect = delay as f64 / r;
                d += ((expect - d) / period).round() * period;
                delays.push((d, (spur_allowed * 2.0 / t.1) / (2.0 * PI * t.0) + 1e-7));
            }
            for i in 0..delays.len() {
                for j in i + 1..delays.len() {
                    let diff = (delays[i].0 - delays[j].0).abs();
                    let tol = delays[i].1 + delays[j].1;
                    st.max("c01_delay_difference_over_tolerance", diff / tol);
                    if diff > tol {
                        cr.viols.push(Viol::new("C01", "not_linear_phase", format!("tones at {:.5} and {:.5} cycles/input sample are delayed by {:.6} and {:.6} input samples (difference {:.2e} > {:.2e})", tones[i].0, tones[j].0, delays[i].0, delays[j].0, diff, tol)));
                    }
                }
            }
            st.add("c01_tone_runs", 1.0);
            st.add("c01_tones_fitted", gs.len() as f64);
            st.add(&format!("cases.{}", cfg.kind.name()), 1.0);
            cr.class = Some(format!("p|{}|{}|{}", T::NAME, cfg.class(), gs.len()));
            return cr;
        }

        // ------------------------------ C02
        let up_image = r > 1.0 && rng.chance(0.5) && (cfg.kind.is_fft() || (cfg.f_cutoff as f64) <= cc * 1.0000001);
        let amp = rng.uf(0.3, 1.0);
        let f_abs;
        if up_image {
            // any input tone; its images must be rejected
            f_abs = rng.uf(0.01, 0.495);
        } else {
            if stop_edge >= 0.4999 {
                desc.set("note", J::s("no stop band below the input Nyquist"));
                cr.desc = desc;
                st.add("trivial_no_stopband", 1.0);
                return cr;
            }
            f_abs = rng.uf(stop_edge, 0.5);
        }
        desc.set("tone_f_amp", J::Arr(vec![J::f(f_abs), J::f(amp)]));
        desc.set("stop_edge_cycles_per_input_sample", J::f(stop_edge));
        desc.set("mode", J::s(if up_image { "images of an input tone when up-sampling" } else { "stop-band tone" }));
        set_desc(&desc);
        cr.desc = desc;
        if ctx.describe {
            return cr;
        }
        let ph0 = rng.uf(0.0, 2.0 * PI);
        let (fig_db, tb) = if cfg.kind.is_sinc() { (cfg.window.stop_db() - 3.5, 2.0 * textbook(cfg.interp, amp, f_abs, cfg.oversampling)) } else { (100.0, 0.0) };
        let allowed = undb(-fig_db) * amp + tb + floor * amp;
        let mut power = 0.0;
        for q in 0..2 {
            let tones = vec![(f_abs, amp, ph0 + q as f64 * PI / 2.0)];
            let ro = match run_tones::<T>(&cfg, &tones, n_seg, skip_out, resize, life) {
                Ok(x) => x,
                Err(e) => {
                    if e.starts_with("NONFINITE") {
                        cr.viols.push(Viol::new("C02", "non_finite_output", format!("stop-band tone in, {} (steady-state segment)", e)));
                        return cr;
                    }
                    if e.starts_with("PANIC") && (life.is_some() || resize.is_some()) {
                        // the plain stream (fresh instance, exactly sized buffers, constant chunk size) for comparison
                        if run_tones::<T>(&cfg, &tones, n_seg, skip_out, None, None).is_ok() {
                            cr.viols.push(Viol::new("C02", "stream_fails_only_with_history_or_long_buffers", format!("stop-band tone in: the same stream completes on a fresh instance with exactly sized buffers, but with an earlier life + reset / longer buffers / chunk-size changes it ends with {}", e)));
                            return cr;
                        }
                    }
                    cr.inconclusive = Some(e);
                    return cr;
                }
            };
            if up_image {
                let g = f_abs / r;
                let fit = if g > 2.0 / n_seg as f64 { fit_tones(&ro.y, ro.j0 as f64, &[g]) } else { None };
                match fit {
                    Some(f) => power += f.resid_rms * f.resid_rms,
                    None => {
                        cr.inconclusive = Some("fundamental too close to DC for the fit".into());
                        return cr;
                    }
                }
            } else {
                let mean = ro.y.iter().sum::<f64>() / ro.y.len() as f64;
                power += ro.y.iter().map(|v| (v - mean) * (v - mean)).sum::<f64>() / ro.y.len() as f64;
            }
        }
        // phase-averaged power of all alias / image components, as an equivalent sine amplitude.
        // Near the Nyquist frequency at ratios close to 1 a tone and its first image fold onto the same
        // output frequency: two components, each within the figure, add 3 dB (hence figure - 3.5 dB above).
        let eq_amp = (2.0 * power / 2.0).sqrt();
        let ratio_v = eq_amp / allowed;
        let fam = if cfg.kind.is_sinc() { cfg.window.name().to_string() } else { format!("fft.block2^{}", (cfg.fft_sizes().0.min(cfg.fft_sizes().1) as f64).log2().floor()) };
        st.min(&format!("c02_margin_db.{}.{}{}", fam, T::NAME, if up_image { ".images" } else { "" }), -db(ratio_v));
        if eq_amp > allowed {
            cr.viols.push(Viol::new(
                "C02",
                if up_image { "image_not_rejected" } else { "stopband_tone_not_rejected" },
                format!(
                    "{} at {:.5} cycles/input sample (stop edge {:.5}, ratio {:.4}): output {:.1} dB re the input tone, allowed {:.1} dB (figure {} dB, 2x textbook interpolation bound {:.2e})",
                    if up_image { "images of a tone" } else { "stop-band tone" },
                    f_abs,
                    stop_edge,
                    r,
                    db(eq_amp / amp),
                    db(allowed / amp),
                    fig_db,
                    tb
                ),
            ));
        }
        st.add(if up_image { "c02_image_runs" } else { "c02_stopband_runs" }, 1.0);
        st.add(&format!("cases.{}", cfg.kind.name()), 1.0);
        cr.class = Some(format!("s|{}|{}|{}", T::NAME, cfg.class(), up_image));
        cr
    }
}

impl Monitor for Band {
    fn name(&self) -> &'static str {
        "band"
    }
    fn budget(&self, ctx: &Ctx) -> u64 {
        if ctx.tier == Tier::Quick {
            600
        } else {
            12_000
        }
    }
    fn case(&self, ctx: &Ctx, idx: u64, st: &mut Stats) -> CaseResult {
        let mut r = Rng::derive(&[ctx.seed, idx, 0x7e57]);
        if r.chance(0.3) {
            self.case_t::<f32>(ctx, idx, st)
        } else {
            self.case_t::<f64>(ctx, idx, st)
        }
    }
}
