//! `simd` (C15): the SIMD kernels equal the scalar kernel; CPU dispatch is transparent.
//!
//! Direct calls of the public interpolators with identical parameters.  Reference = dot
//! product of the window with the taps (recovered from the scalar kernel by unit-impulse
//! probing) evaluated in doubled working precision (Dot2); bound = (L/8+8) * eps * sum|w*s|,
//! sound for any summation order with or without FMA.  Everything outside [i, i+L) is NaN:
//! a read outside the window that reaches the result shows as NaN.  The slice ends exactly
//! one element after the window, so any over-read beyond that one element is a heap
//! out-of-bounds access for ASan / Miri, which run this same monitor.

use crate::any::AnyRes;
use crate::cfg::*;
use crate::json::J;
use crate::mon::*;
use crate::rng::Rng;
use crate::run::*;
use crate::sig::Sig;
use rubato::sinc_interpolator::sinc_interpolator_avx::AvxInterpolator;
use rubato::sinc_interpolator::sinc_interpolator_sse::SseInterpolator;
use rubato::sinc_interpolator::{ScalarInterpolator, SincInterpolator};

pub struct Simd;

fn two_sum(a: f64, b: f64) -> (f64, f64) {
    let s = a + b;
    let bb = s - a;
    (s, (a - (s - bb)) + (b - bb))
}
fn two_prod(a: f64, b: f64) -> (f64, f64) {
    let p = a * b;
    (p, a.mul_add(b, -p))
}
/// dot product as if computed in twice the working precision (Ogita, Rump, Oishi)
fn dot2(x: &[f64], y: &[f64]) -> (f64, f64) {
    let (mut p, mut s) = (0.0, 0.0);
    let mut abs = 0.0;
    for (a, b) in x.iter().zip(y.iter()) {
        let (h, r) = two_prod(*a, *b);
        let (np, q) = two_sum(p, h);
        p = np;
        s += q + r;
        abs += (a * b).abs();
    }
    (p + s, abs)
}

fn gen_wave<T: Smp>(rng: &mut Rng, n: usize, style: usize) -> Vec<T> {
    let big: f64 = if T::IS32 { 1e30 } else { 1e300 };
    (0..n)
        .map(|_| {
            let v = match style {
                0 => rng.gauss(),
                1 => rng.uf(-1.0, 1.0),
                2 => {
                    // huge dynamic range
                    let e = rng.uf(-1.0, 1.0);
                    rng.gauss() * big.powf(e)
                }
                3 => *rng.pick(&[0.0, -0.0, 1.0, -1.0, f64::MIN_POSITIVE, 5e-324, if T::IS32 { 1e-40 } else { 1e-310 }]),
                _ => {
                    if rng.chance(0.05) {
                        rng.gauss() * 1e6
                    } else {
                        rng.gauss() * 1e-6
                    }
                }
            };
            T::of64(v)
        })
        .collect()
}

impl Simd {
    fn kernels<T: Smp>(len: usize, n: usize, fc: f32, w: Win) -> Vec<(&'static str, Box<dyn SincInterpolator<T>>)> {
        let mut v: Vec<(&'static str, Box<dyn SincInterpolator<T>>)> = Vec::new();
        v.push(("scalar", Box::new(ScalarInterpolator::<T>::new(len, n, fc, w.to_rubato()))));
        if let Ok(k) = AvxInterpolator::<T>::new(len, n, fc, w.to_rubato()) {
            v.push(("avx", Box::new(k)));
        }
        if let Ok(k) = SseInterpolator::<T>::new(len, n, fc, w.to_rubato()) {
            v.push(("sse", Box::new(k)));
        }
        v
    }

    fn kernel_case<T: Smp>(&self, ctx: &Ctx, idx: u64, st: &mut Stats) -> CaseResult {
        let mut rng = ctx.rng_for(idx);
        let tiny = ctx.profile == "tiny";
        let max_l8 = if tiny { 6 } else { 64 };
        // sweep every multiple of 8 systematically across cases, plus random ones
        let len = 8 * (1 + (idx as usize) % max_l8);
        let n = *rng.pick(if tiny { &[1usize, 2, 3, 7][..] } else { &[1usize, 2, 3, 7, 16, 160, 2048][..] });
        let n = if len * n > 300_000 { 64 } else { n };
        let win = *rng.pick(&ALL_WIN);
        let fc = rng.uf(0.5, 1.0) as f32;
        let desc = J::obj().with("sample", J::s(T::NAME)).with("kind", J::s("kernel")).with("sinc_len", J::u(len)).with("oversampling", J::u(n)).with("window", J::s(win.name())).with("f_cutoff", J::f(fc as f64));
        set_desc(&desc);
        let mut cr = CaseResult { desc, ..Default::default() };
        if ctx.describe {
            return cr;
        }
        let ks = Self::kernels::<T>(len, n, fc, win);
        st.add(&format!("kernel_sets_with_{}_kernels", ks.len()), 1.0);
        for (name, _) in &ks {
            st.add(&format!("kernel.{}", name), 1.0);
        }
        // taps of a few sub-filters, by unit-impulse probing of the scalar kernel
        let subs: Vec<usize> = if n <= 4 { (0..n).collect() } else { vec![0, n - 1, rng.ui(0, n - 1), rng.ui(0, n - 1)] };
        let evals_per_sub = if tiny { 4 } else { 24 };
        let mut evals = 0u64;
        let mut worst = 0.0f64;
        'subs: for s in subs {
            let mut taps = vec![0.0f64; len];
            let mut imp = vec![T::of64(0.0); len + 1];
            for k in 0..len {
                imp[k] = T::of64(1.0);
                taps[k] = match crate::mon::guarded(|| ks[0].1.get_sinc_interpolated(&imp, 0, s).f64()) {
                    Ok(v) => v,
                    Err(p) => {
                        cr.viols.push(Viol::new("C15", "kernel_panics_on_valid_call", format!("{} kernel: L={} N={} index=0 subindex={} on a slice of {} samples (index + L < len): panicked: {}", ks[0].0, len, n, s, imp.len(), p)));
                        break 'subs;
                    }
                };
                imp[k] = T::of64(0.0);
            }
            // every kernel must hold the same taps
            for (name, k) in ks.iter().skip(1) {
                for kk in [0usize, len / 2, len - 1, rng.ui(0, len - 1)] {
                    imp[kk] = T::of64(1.0);
                    let t = match crate::mon::guarded(|| k.get_sinc_interpolated(&imp, 0, s).f64()) {
                        Ok(v) => v,
                        Err(p) => {
                            cr.viols.push(Viol::new("C15", "kernel_panics_on_valid_call", format!("{} kernel: L={} N={} index=0 subindex={} on a slice of {} samples (index + L < len), where the scalar kernel returned a value: panicked: {}", name, len, n, s, imp.len(), p)));
                            break 'subs;
                        }
                    };
                    imp[kk] = T::of64(0.0);
                    if t != taps[kk] {
                        cr.viols.push(Viol::new("C15", "taps_differ", format!("{} kernel, subindex {}, tap {}: {:e} vs scalar {:e}", name, s, kk, t, taps[kk])));
                        break 'subs;
                    }
                }
            }
            for _ in 0..evals_per_sub {
                let off = rng.ui(0, 8); // alignment class of the slice start
                let index = rng.ui(0, 24);
                let style = rng.ui(0, 4);
                let total = index + len + 1; // slice ends exactly one element after the window
                let mut buf = gen_wave::<T>(&mut rng, off + total, style);
                // NaN everywhere outside the window
                for (j, v) in buf.iter_mut().enumerate() {
                    if j < off + index || j >= off + index + len {
                        *v = T::of64(f64::NAN);
                    }
                }
                let wave = &buf[off..off + total];
                let wf: Vec<f64> = wave[index..index + len].iter().map(|v| v.f64()).collect();
                let (reference, abs) = dot2(&wf, &taps);
                let bound = (len as f64 / 8.0 + 8.0) * T::EPS * abs + (len as f64 + 8.0) * if T::IS32 { 1.5e-45 } else { 5e-324 };
                let mut results = Vec::new();
                for (name, k) in &ks {
                    let v = match crate::mon::guarded(|| k.get_sinc_interpolated(wave, index, s).f64()) {
                        Ok(v) => v,
                        Err(p) => {
                            cr.viols.push(Viol::new("C15", "kernel_panics_on_valid_call", format!("{} kernel: L={} N={} index={} subindex={} on a slice of {} samples (the highest legal index: index + L = len - 1): panicked: {}", name, len, n, index, s, wave.len(), p)));
                            break 'subs;
                        }
                    };
                    evals += 1;
                    if v.is_nan() {
                        cr.viols.push(Viol::new("C15", "reads_outside_window", format!("{} kernel returned NaN with NaN only outside [index, index+{}): L={} N={} index={} subindex={} slice offset {}", name, len, len, n, index, s, off)));
                        break 'subs;
                    }
                    if !reference.is_finite() {
                        continue;
                    }
                    let e = (v - reference).abs();
                    if bound > 0.0 && e / bound > worst {
                        worst = e / bound;
                    }
                    if e > bound {
                        cr.viols.push(Viol::new(
                            "C15",
                            "kernel_value_beyond_rounding",
                            format!("{} kernel: L={} N={} index={} subindex={} offset={} style={}: {:e} vs exact {:e}: error {:e} > (L/8+8)*eps*sum|w*s| = {:e}", name, len, n, index, s, off, style, v, reference, e, bound),
                        ));
                        break 'subs;
                    }
                    results.push((*name, v));
                }
                // pairwise SIMD vs scalar (twice the bound)
                if let Some((_, sv)) = results.first() {
                    for (name, v) in results.iter().skip(1) {
                        if (v - sv).abs() > 2.0 * bound {
                            cr.viols.push(Viol::new("C15", "simd_differs_from_scalar", format!("{} {:e} vs scalar {:e} (L={} N={} subindex={})", name, v, sv, len, n, s)));
                            break 'subs;
                        }
                    }
                }
            }
        }
        st.add("kernel_evaluations", evals as f64);
        st.max("worst_error_over_bound", worst);
        st.distinct("sinc_lengths", &format!("{}{}", T::NAME, len));
        cr.class = Some(format!("k|{}|L{}|N{}|{}", T::NAME, len, n, win.name()));
        cr
    }

    fn stream_case<T: Smp>(&self, ctx: &Ctx, idx: u64, st: &mut Stats) -> CaseResult {
        let mut rng = ctx.rng_for(idx);
        let tiny = ctx.profile == "tiny";
        let mut gp = if tiny { GenProfile::tiny() } else { GenProfile::small() }.with_kinds(&[Kind::SincIn, Kind::SincOut]);
        gp.max_channels = 2;
        let mut cfg = gen_cfg(&mut rng, &gp);
        cfg.kernel = Kernel::Auto; // this monitor builds every kernel itself and compares with the dispatching constructor
        let hp = HistProfile::full(if tiny { 4 } else { 12 });
        let ops = gen_history(&mut rng, &cfg, &hp);
        let s1 = rng.next();
        let desc = J::obj().with("sample", J::s(T::NAME)).with("kind", J::s("resampler per kernel")).with("cfg", cfg.json()).with("signal_seed", J::Int(s1 as i128)).with("ops", ops_json(&ops));
        set_desc(&desc);
        let mut cr = CaseResult { desc, ..Default::default() };
        if ctx.describe {
            return cr;
        }
        let len = cfg.flen();
        // make_interpolator scales the cutoff for ratios below one
        let fc = if cfg.ratio >= 1.0 { cfg.f_cutoff } else { cfg.f_cutoff * cfg.ratio as f32 };
        let ks = Self::kernels::<T>(len, cfg.oversampling, fc, cfg.window);
        let names: Vec<&str> = ks.iter().map(|k| k.0).collect();
        let mut runs: Vec<Runner<T>> = Vec::new();
        for (_, k) in ks {
            let r = AnyRes::<T>::build_with(&cfg, k).unwrap();
            runs.push(Runner::new(&cfg, Box::new(r), Sig::noise(s1)));
        }
        let mut disp = match Runner::<T>::fresh(&cfg, Sig::noise(s1)) {
            Ok(r) => r,
            Err(e) => {
                cr.inconclusive = Some(e);
                return cr;
            }
        };
        let best = if names.contains(&"avx") {
            names.iter().position(|n| *n == "avx")
        } else if names.contains(&"sse") {
            names.iter().position(|n| *n == "sse")
        } else {
            Some(0)
        };
        // sum|taps| <= ~3 for these windows; value bound for a whole interpolated output frame
        let k_bound = 8.0 * (len as f64 / 8.0 + 8.0) * T::EPS * 4.0;
        'ops: for (i, op) in ops.iter().enumerate() {
            // a kernel that panics on a call another kernel completes breaks the "same stream whichever kernel" clause
            let tried: Vec<Result<StepOut<T>, String>> = runs.iter_mut().map(|r| crate::mon::guarded(|| r.step(op))).collect();
            let n_panicked = tried.iter().filter(|t| t.is_err()).count();
            if n_panicked > 0 {
                if n_panicked < tried.len() {
                    let k = tried.iter().position(|t| t.is_err()).unwrap();
                    cr.viols.push(Viol::new("C15", "kernel_panics_where_another_completes", format!("op {} ({}): the resampler built on the {} kernel panicked ({}), {} other kernel(s) completed the same call", i, op.json().dump(), names[k], tried[k].as_ref().err().unwrap(), tried.len() - n_panicked)));
                } else {
                    cr.inconclusive = Some(format!("every kernel panicked (C03): {}", tried[0].as_ref().err().unwrap()));
                }
                break 'ops;
            }
            let outs: Vec<StepOut<T>> = tried.into_iter().map(|t| t.unwrap()).collect();
            let sd = match crate::mon::guarded(|| disp.step(op)) {
                Ok(x) => x,
                Err(p) => {
                    cr.viols.push(Viol::new("C15", "dispatch_not_transparent", format!("op {} ({}): SincFixed*::new panicked ({}), the explicitly built kernels completed the same call", i, op.json().dump(), p)));
                    break 'ops;
                }
            };
            st.add("compared_steps", 1.0);
            for (k, so) in outs.iter().enumerate().skip(1) {
                if so.res != outs[0].res || so.after != outs[0].after {
                    cr.viols.push(Viol::new("C15", "kernel_changes_control_flow", format!("op {}: {} {:?} vs scalar {:?}", i, names[k], so.res, outs[0].res)));
                    break 'ops;
                }
                for ch in 0..cfg.channels {
                    for (j, (a, b)) in so.out[ch].iter().zip(outs[0].out[ch].iter()).enumerate() {
                        let peak = 1.0f64.max(b.f64().abs());
                        if (a.f64() - b.f64()).abs() > k_bound * peak {
                            cr.viols.push(Viol::new("C15", "stream_differs_between_kernels", format!("op {} channel {} frame {}: {} {:e} vs scalar {:e}", i, ch, j, names[k], a.f64(), b.f64())));
                            break 'ops;
                        }
                    }
                }
            }
            if let Some(b) = best {
                // the dispatching constructor must behave exactly like the explicit build of the kernel it selects
                if let Some(d) = diff_steps(&sd, &outs[b], true) {
                    cr.viols.push(Viol::new("C15", "dispatch_not_transparent", format!("op {}: SincFixed*::new differs from new_with_interpolator({}) : {}", i, names[b], d)));
                    break 'ops;
                }
            }
        }
        st.add(&format!("stream_cases_with_{}", names.join("+")), 1.0);
        cr.class = Some(format!("s|{}|{}|{}", T::NAME, cfg.class(), ops_shape(&ops)));
        cr
    }
}

impl Monitor for Simd {
    fn name(&self) -> &'static str {
        "simd"
    }
    fn budget(&self, ctx: &Ctx) -> u64 {
        match (ctx.tier, ctx.profile.as_str()) {
            (Tier::Quick, "tiny") => 48,
            (Tier::Thorough, "tiny") => 480,
            (Tier::Quick, _) => 6_000,
            (Tier::Thorough, _) => 120_000,
        }
    }
    fn case(&self, ctx: &Ctx, idx: u64, st: &mut Stats) -> CaseResult {
        let mut r = Rng::derive(&[ctx.seed, idx, 0x7e57]);
        let f32_ = r.bool();
        let stream = r.chance(0.25);
        match (f32_, stream) {
            (true, false) => self.kernel_case::<f32>(ctx, idx, st),
            (false, false) => self.kernel_case::<f64>(ctx, idx, st),
            (true, true) => self.stream_case::<f32>(ctx, idx, st),
            (false, true) => self.stream_case::<f64>(ctx, idx, st),
        }
    }
}
