//! History engine: operations, the per-call monitor (`Runner::step`) and history generators.
//!
//! `Runner::step` executes one documented operation against the real resampler and checks
//! everything that can be decided from that single call (C03/C04/C09/C11 clauses).  The
//! twin-based monitors drive two or more runners in lock-step and compare `StepOut`s.

use crate::alloc::{self, AllocReport};
use crate::any::{err_repr, AnyRes, Getters};
use crate::cfg::{Cfg, Kind, Smp};
use crate::json::J;
use crate::rng::Rng;
use crate::sig::Sig;
use rubato::{ResampleResult, VecResampler};

// ------------------------------------------------------------------------------------------
// driver abstraction (AnyRes or Box<dyn VecResampler>)

pub trait Drv<T: Smp>: Send {
    fn pib(&mut self, wi: &[Vec<T>], wo: &mut [Vec<T>], mask: Option<&[bool]>) -> ResampleResult<(usize, usize)>;
    fn proc(&mut self, wi: &[Vec<T>], mask: Option<&[bool]>) -> ResampleResult<Vec<Vec<T>>>;
    fn ppib(&mut self, wi: Option<&[Vec<T>]>, wo: &mut [Vec<T>], mask: Option<&[bool]>) -> ResampleResult<(usize, usize)>;
    fn pp(&mut self, wi: Option<&[Vec<T>]>, mask: Option<&[bool]>) -> ResampleResult<Vec<Vec<T>>>;
    fn getters(&self) -> Getters;
    fn in_alloc(&self, filled: bool) -> Vec<Vec<T>>;
    fn out_alloc(&self, filled: bool) -> Vec<Vec<T>>;
    fn set_ratio(&mut self, v: f64, ramp: bool) -> ResampleResult<()>;
    fn set_ratio_rel(&mut self, v: f64, ramp: bool) -> ResampleResult<()>;
    /// None: the driver does not expose the method (VecResampler)
    fn set_chunk(&mut self, n: usize) -> Option<ResampleResult<()>>;
    fn reset(&mut self) -> bool;
}

impl<T: Smp> Drv<T> for AnyRes<T> {
    fn pib(&mut self, wi: &[Vec<T>], wo: &mut [Vec<T>], mask: Option<&[bool]>) -> ResampleResult<(usize, usize)> {
        self.process_into_buffer(wi, wo, mask)
    }
    fn proc(&mut self, wi: &[Vec<T>], mask: Option<&[bool]>) -> ResampleResult<Vec<Vec<T>>> {
        self.process(wi, mask)
    }
    fn ppib(&mut self, wi: Option<&[Vec<T>]>, wo: &mut [Vec<T>], mask: Option<&[bool]>) -> ResampleResult<(usize, usize)> {
        self.process_partial_into_buffer(wi, wo, mask)
    }
    fn pp(&mut self, wi: Option<&[Vec<T>]>, mask: Option<&[bool]>) -> ResampleResult<Vec<Vec<T>>> {
        self.process_partial(wi, mask)
    }
    fn getters(&self) -> Getters {
        AnyRes::getters(self)
    }
    fn in_alloc(&self, filled: bool) -> Vec<Vec<T>> {
        self.input_buffer_allocate(filled)
    }
    fn out_alloc(&self, filled: bool) -> Vec<Vec<T>> {
        self.output_buffer_allocate(filled)
    }
    fn set_ratio(&mut self, v: f64, ramp: bool) -> ResampleResult<()> {
        self.set_resample_ratio(v, ramp)
    }
    fn set_ratio_rel(&mut self, v: f64, ramp: bool) -> ResampleResult<()> {
        self.set_resample_ratio_relative(v, ramp)
    }
    fn set_chunk(&mut self, n: usize) -> Option<ResampleResult<()>> {
        Some(self.set_chunk_size(n))
    }
    fn reset(&mut self) -> bool {
        AnyRes::reset(self);
        true
    }
}

pub struct Boxed<T: Smp>(pub Box<dyn VecResampler<T>>);

impl<T: Smp> Drv<T> for Boxed<T> {
    fn pib(&mut self, wi: &[Vec<T>], wo: &mut [Vec<T>], mask: Option<&[bool]>) -> ResampleResult<(usize, usize)> {
        self.0.process_into_buffer(wi, wo, mask)
    }
    fn proc(&mut self, wi: &[Vec<T>], mask: Option<&[bool]>) -> ResampleResult<Vec<Vec<T>>> {
        self.0.process(wi, mask)
    }
    fn ppib(&mut self, wi: Option<&[Vec<T>]>, wo: &mut [Vec<T>], mask: Option<&[bool]>) -> ResampleResult<(usize, usize)> {
        self.0.process_partial_into_buffer(wi, wo, mask)
    }
    fn pp(&mut self, wi: Option<&[Vec<T>]>, mask: Option<&[bool]>) -> ResampleResult<Vec<Vec<T>>> {
        self.0.process_partial(wi, mask)
    }
    fn getters(&self) -> Getters {
        Getters {
            in_next: self.0.input_frames_next(),
            in_max: self.0.input_frames_max(),
            out_next: self.0.output_frames_next(),
            out_max: self.0.output_frames_max(),
            delay: self.0.output_delay(),
            nch: self.0.nbr_channels(),
        }
    }
    fn in_alloc(&self, filled: bool) -> Vec<Vec<T>> {
        self.0.input_buffer_allocate(filled)
    }
    fn out_alloc(&self, filled: bool) -> Vec<Vec<T>> {
        self.0.output_buffer_allocate(filled)
    }
    fn set_ratio(&mut self, v: f64, ramp: bool) -> ResampleResult<()> {
        self.0.set_resample_ratio(v, ramp)
    }
    fn set_ratio_rel(&mut self, v: f64, ramp: bool) -> ResampleResult<()> {
        self.0.set_resample_ratio_relative(v, ramp)
    }
    fn set_chunk(&mut self, _n: usize) -> Option<ResampleResult<()>> {
        None
    }
    fn reset(&mut self) -> bool {
        false
    }
}

// ------------------------------------------------------------------------------------------
// operations

#[derive(Clone, Copy, Debug, PartialEq, Eq)]
pub enum Path {
    /// process_into_buffer, buffers of exactly the advertised sizes
    Exact,
    /// process_into_buffer, oversized buffers (poisoned / sentinel-filled slack)
    Slack,
    /// process_into_buffer with the buffers obtained from *_buffer_allocate at construction
    Max,
    /// process() (allocating wrapper)
    Vecs,
}

#[derive(Clone, Debug)]
pub enum Op {
    Proc { path: Path, slack_in: usize, slack_out: usize, mask: Option<Vec<bool>>, empty_inactive: bool },
    /// frac: Some(f) -> supply max(1, floor(f*needed)) frames (< needed when needed>1); None -> flush call
    /// ragged: Some(seed) -> the channels of the partial input have different lengths (1..=k each, one of them k)
    Partial { frac: Option<f64>, into: bool, mask: Option<Vec<bool>>, ragged: Option<u64> },
    SetRatio { v: f64, ramp: bool, rel: bool },
    SetChunk(usize),
    Reset,
}

impl Op {
    pub fn json(&self) -> J {
        match self {
            Op::Proc { path, slack_in, slack_out, mask, empty_inactive } => {
                let mut o = J::obj().with("op", J::s("process")).with("path", J::s(&format!("{:?}", path)));
                if *path == Path::Slack {
                    o.set("slack_in", J::u(*slack_in));
                    o.set("slack_out", J::u(*slack_out));
                }
                if let Some(m) = mask {
                    o.set("mask", J::Arr(m.iter().map(|b| J::b(*b)).collect()));
                    o.set("empty_inactive", J::b(*empty_inactive));
                }
                o
            }
            Op::Partial { frac, into, mask, ragged } => {
                let mut o = J::obj().with("op", J::s(if *into { "process_partial_into_buffer" } else { "process_partial" }));
                match frac {
                    Some(f) => o.set("frac", J::f(*f)),
                    None => o.set("input", J::Null),
                };
                if let Some(m) = mask {
                    o.set("mask", J::Arr(m.iter().map(|b| J::b(*b)).collect()));
                }
                if let Some(r) = ragged {
                    o.set("ragged_channel_lengths_seed", J::Int(*r as i128));
                }
                o
            }
            Op::SetRatio { v, ramp, rel } => J::obj()
                .with("op", J::s(if *rel { "set_resample_ratio_relative" } else { "set_resample_ratio" }))
                .with("value", J::f(*v))
                .with("ramp", J::b(*ramp)),
            Op::SetChunk(n) => J::obj().with("op", J::s("set_chunk_size")).with("value", J::u(*n)),
            Op::Reset => J::obj().with("op", J::s("reset")),
        }
    }
    pub fn is_process(&self) -> bool {
        matches!(self, Op::Proc { .. } | Op::Partial { .. })
    }
    pub fn shape(&self) -> char {
        match self {
            Op::Proc { path: Path::Exact, .. } => 'p',
            Op::Proc { path: Path::Slack, .. } => 's',
            Op::Proc { path: Path::Max, .. } => 'm',
            Op::Proc { path: Path::Vecs, .. } => 'v',
            Op::Partial { frac: Some(_), .. } => 'q',
            Op::Partial { frac: None, .. } => 'f',
            Op::SetRatio { ramp: true, .. } => 'R',
            Op::SetRatio { ramp: false, .. } => 'r',
            Op::SetChunk(_) => 'c',
            Op::Reset => 'z',
        }
    }
}

/// frames supplied for channel `ch` of a partial call that supplies `k` frames at most
pub fn partial_len(k: usize, ragged: Option<u64>, ch: usize, nch: usize) -> usize {
    match ragged {
        Some(seed) if k > 1 && nch > 1 => {
            let full = (crate::rng::mix(&[seed, 0xabc]) % nch as u64) as usize;
            if ch == full {
                k
            } else {
                1 + (crate::rng::mix(&[seed, ch as u64]) % k as u64) as usize
            }
        }
        _ => k,
    }
}

pub fn ops_json(ops: &[Op]) -> J {
    J::Arr(ops.iter().map(|o| o.json()).collect())
}
pub fn ops_shape(ops: &[Op]) -> String {
    ops.iter().map(|o| o.shape()).collect()
}

#[derive(Clone, Debug)]
pub struct Finding {
    pub prop: &'static str,
    pub clause: &'static str,
    pub detail: String,
    pub step: usize,
}

#[derive(Clone, Debug)]
pub struct StepOut<T> {
    /// process ops: Ok((in,out)); setters: Ok((0,0)); Err(repr) otherwise
    pub res: Result<(usize, usize), String>,
    /// frames written per channel (empty for inactive channels)
    pub out: Vec<Vec<T>>,
    pub before: Getters,
    pub after: Getters,
    pub allocs: AllocReport,
    /// frames of signal consumed by this step
    pub fed: usize,
}

/// ratio/chunk model mirrored from the documented control semantics
#[derive(Clone, Debug)]
pub struct Model {
    pub cur: f64,
    pub tgt: f64,
    pub chunk: usize,
}

pub struct Runner<T: Smp> {
    pub cfg: Cfg,
    pub drv: Box<dyn Drv<T>>,
    pub sig: Sig,
    pub pos: u64,
    pub round32: bool,
    pub model: Model,
    pub alloc_in: Vec<Vec<T>>,
    pub alloc_out: Vec<Vec<T>>,
    pub findings: Vec<Finding>,
    pub nstep: usize,
    pub calls: u64,
    pub check_alloc: bool,
    /// signal channel offset (single-channel twins of an n-channel instance)
    pub ch_off: usize,
    /// smallest input/output_frames_max() seen so far: the max getters are lifetime bounds
    pub min_in_max: usize,
    pub min_out_max: usize,
    sent_k: u32,
}

const POISON_BITS: u32 = 0xBAD;

impl<T: Smp> Runner<T> {
    pub fn new(cfg: &Cfg, drv: Box<dyn Drv<T>>, sig: Sig) -> Self {
        let alloc_in = drv.in_alloc(true);
        let alloc_out = drv.out_alloc(true);
        Runner {
            cfg: cfg.clone(),
            model: Model { cur: cfg.ratio, tgt: cfg.ratio, chunk: cfg.chunk },
            drv,
            sig,
            pos: 0,
            round32: false,
            alloc_in,
            alloc_out,
            findings: Vec::new(),
            nstep: 0,
            calls: 0,
            check_alloc: true,
            ch_off: 0,
            min_in_max: usize::MAX,
            min_out_max: usize::MAX,
            sent_k: 1,
        }
    }
    pub fn fresh(cfg: &Cfg, sig: Sig) -> Result<Self, String> {
        let r = AnyRes::<T>::build(cfg).map_err(|e| format!("{}", e))?;
        Ok(Self::new(cfg, Box::new(r), sig))
    }

    /// the same instance driven through the object-safe wrapper (`Box<dyn VecResampler<T>>`); reset and
    /// set_chunk_size are not part of that trait
    pub fn fresh_boxed(cfg: &Cfg, sig: Sig) -> Result<Self, String> {
        let r = AnyRes::<T>::build(cfg).map_err(|e| format!("{}", e))?;
        Ok(Self::new(cfg, Box::new(Boxed(r.boxed())), sig))
    }

    fn find(&mut self, prop: &'static str, clause: &'static str, detail: String) {
        if self.findings.len() < 64 {
            self.findings.push(Finding { prop, clause, detail, step: self.nstep });
        }
    }

    #[inline]
    pub fn sample(&self, ch: usize, n: u64) -> T {
        let v = self.sig.at(ch + self.ch_off, n);
        if self.round32 {
            T::of64(v as f32 as f64)
        } else {
            T::of64(v)
        }
    }

    fn poison() -> T {
        T::sentinel(POISON_BITS)
    }

    fn active(mask: &Option<Vec<bool>>, ch: usize) -> bool {
        mask.as_ref().map(|m| m.get(ch).copied().unwrap_or(true)).unwrap_or(true)
    }

    /// Build the input block: `n` frames of signal per active channel (+ `slack` poison frames).
    pub fn make_input(&self, n: usize, slack: usize, mask: &Option<Vec<bool>>, empty_inactive: bool) -> Vec<Vec<T>> {
        let nch = self.cfg.channels;
        let mut v = Vec::with_capacity(nch);
        for ch in 0..nch {
            if !Self::active(mask, ch) && empty_inactive {
                v.push(Vec::new());
                continue;
            }
            let mut c = Vec::with_capacity(n + slack);
            for k in 0..n {
                c.push(self.sample(ch, self.pos + k as u64));
            }
            for _ in 0..slack {
                c.push(Self::poison());
            }
            v.push(c);
        }
        v
    }

    fn check_getters(&mut self, g: &Getters) {
        if g.in_next > g.in_max {
            self.find("C04", "in_next_gt_max", format!("input_frames_next()={} > input_frames_max()={}", g.in_next, g.in_max));
        }
        if g.out_next > g.out_max {
            self.find("C04", "out_next_gt_max", format!("output_frames_next()={} > output_frames_max()={}", g.out_next, g.out_max));
        }
        // buffers sized by *_frames_max() at ANY earlier time must stay sufficient
        self.min_in_max = self.min_in_max.min(g.in_max);
        self.min_out_max = self.min_out_max.min(g.out_max);
        if g.in_next > self.min_in_max {
            self.find("C04", "max_not_a_lifetime_bound", format!("input_frames_next()={} exceeds the value {} that input_frames_max() reported earlier in this history", g.in_next, self.min_in_max));
        }
        if g.out_next > self.min_out_max {
            self.find("C04", "max_not_a_lifetime_bound", format!("output_frames_next()={} exceeds the value {} that output_frames_max() reported earlier in this history", g.out_next, self.min_out_max));
        }
        if g.nch != self.cfg.channels {
            self.find("C04", "nbr_channels", format!("nbr_channels()={} != {}", g.nch, self.cfg.channels));
        }
    }

    /// Inspect an output buffer that was pre-filled with `sentinel(k)`.
    /// Returns the number of leading non-sentinel frames (the written high-water mark)
    /// and whether a write happened beyond it.
    fn scan(buf: &[T], k: u32) -> (usize, bool, bool) {
        let mut hw = 0;
        for (i, v) in buf.iter().enumerate() {
            if !v.is_sentinel(k) {
                hw = i + 1;
            }
        }
        let hole = buf[..hw].iter().any(|v| v.is_sentinel(k));
        let nan = buf[..hw].iter().any(|v| v.isnan());
        (hw, hole, nan)
    }

    fn post_into(&mut self, g: &Getters, r: &ResampleResult<(usize, usize)>, out: &[Vec<T>], k: u32, mask: &Option<Vec<bool>>, n_in: usize, al: &AllocReport) -> Vec<Vec<T>> {
        let kind = self.cfg.kind;
        let mut written = vec![Vec::new(); out.len()];
        if self.check_alloc && al.events != 0 {
            self.find(
                "C09",
                "alloc_in_process_into_buffer",
                format!("{} allocator event(s) during process_into_buffer, first: {} of {} bytes", al.events, al.kind_name(), al.first_size),
            );
        }
        match r {
            Err(e) => {
                self.find("C03", "err_on_valid_call", format!("valid processing call returned Err: {}", err_repr(e)));
                // nothing may have been written
                for (ch, b) in out.iter().enumerate() {
                    let (hw, _, _) = Self::scan(b, k);
                    if hw != 0 {
                        self.find("C13", "write_on_err", format!("channel {} written up to {} on a failing call", ch, hw));
                    }
                }
            }
            Ok((i, o)) => {
                if *i != n_in {
                    self.find("C04", "in_count", format!("returned input count {} != input_frames_next() {}", i, n_in));
                }
                if *o > g.out_next {
                    self.find("C04", "out_gt_next", format!("returned output count {} > output_frames_next() {}", o, g.out_next));
                }
                if kind.exact_out() && *o != g.out_next {
                    self.find("C04", "out_not_exact", format!("returned output count {} != output_frames_next() {} on a fixed-output/synchronous type", o, g.out_next));
                }
                for (ch, b) in out.iter().enumerate() {
                    let (hw, hole, nan) = Self::scan(b, k);
                    if Self::active(mask, ch) {
                        if hw > *o {
                            self.find("C04", "write_beyond_count", format!("channel {}: wrote up to frame {} but reported {}", ch, hw, o));
                        } else if hw < *o && *o <= b.len() {
                            // the last reported frames were never written (a genuine output can
                            // not be the sentinel NaN)
                            self.find("C04", "unwritten_within_count", format!("channel {}: reported {} frames but wrote only {}", ch, o, hw));
                        }
                        if hole {
                            self.find("C04", "hole_in_output", format!("channel {}: unwritten frame inside the reported range", ch));
                        }
                        if nan {
                            self.find("C04", "poison_in_output", format!("channel {}: NaN in output (input beyond input_frames_next() or stale storage was consumed)", ch));
                        }
                        let w = (*o).min(b.len());
                        written[ch] = b[..w].to_vec();
                    } else if hw != 0 {
                        self.find("C11", "masked_channel_written", format!("inactive channel {} written up to frame {}", ch, hw));
                    }
                }
            }
        }
        written
    }

    fn post_vecs(&mut self, g: &Getters, r: &ResampleResult<Vec<Vec<T>>>, mask: &Option<Vec<bool>>) -> (Result<(usize, usize), String>, Vec<Vec<T>>) {
        match r {
            Err(e) => {
                self.find("C03", "err_on_valid_call", format!("valid processing call (process/process_partial) returned Err: {}", err_repr(e)));
                (Err(err_repr(e)), vec![Vec::new(); self.cfg.channels])
            }
            Ok(v) => {
                if v.len() != self.cfg.channels {
                    self.find("C16", "process_channels", format!("process() returned {} channels", v.len()));
                }
                let mut o = None;
                for (ch, b) in v.iter().enumerate() {
                    if Self::active(mask, ch) {
                        match o {
                            None => o = Some(b.len()),
                            Some(x) if x != b.len() => {
                                self.find("C16", "process_ragged", format!("process() returned channels of different length {} vs {}", x, b.len()));
                            }
                            _ => {}
                        }
                        if b.iter().any(|s| s.isnan()) {
                            self.find("C04", "poison_in_output", format!("channel {}: NaN in process() output", ch));
                        }
                    } else if !b.is_empty() {
                        self.find("C16", "masked_not_empty", format!("process() returned {} frames for inactive channel {}", b.len(), ch));
                    }
                }
                let o = o.unwrap_or(0);
                if mask.as_ref().map(|m| m.iter().any(|b| *b)).unwrap_or(true) {
                    if o > g.out_next {
                        self.find("C04", "out_gt_next", format!("process() returned {} frames > output_frames_next() {}", o, g.out_next));
                    }
                    if self.cfg.kind.exact_out() && o != g.out_next {
                        self.find("C04", "out_not_exact", format!("process() returned {} frames != output_frames_next() {}", o, g.out_next));
                    }
                }
                (Ok((g.in_next, o)), v.clone())
            }
        }
    }

    /// Execute one operation, checking the single-call clauses.  Panics propagate.
    pub fn step(&mut self, op: &Op) -> StepOut<T> {
        self.nstep += 1;
        let g = self.drv.getters();
        self.check_getters(&g);
        let nch = self.cfg.channels;
        if self.nstep % 5 == 2 {
            // buffers may be obtained from *_buffer_allocate at any point of the resampler's life
            self.alloc_in = self.drv.in_alloc(true);
            self.alloc_out = self.drv.out_alloc(true);
        }
        let mut so = StepOut { res: Ok((0, 0)), out: vec![Vec::new(); nch], before: g, after: g, allocs: AllocReport::default(), fed: 0 };
        match op {
            Op::Proc { path, slack_in, slack_out, mask, empty_inactive } => {
                self.calls += 1;
                let n_in = g.in_next;
                let mut path = *path;
                if path == Path::Max && (g.in_next > self.alloc_in.iter().map(|v| v.len()).min().unwrap_or(0) || g.out_next > self.alloc_out.iter().map(|v| v.len()).min().unwrap_or(0)) {
                    self.find(
                        "C04",
                        "allocate_buffers_too_small",
                        format!(
                            "buffers from input/output_buffer_allocate ({} / {} frames) are smaller than the next call needs ({} / {})",
                            self.alloc_in.first().map(|v| v.len()).unwrap_or(0),
                            self.alloc_out.first().map(|v| v.len()).unwrap_or(0),
                            g.in_next,
                            g.out_next
                        ),
                    );
                    path = Path::Exact;
                }
                self.sent_k = self.sent_k.wrapping_add(1) & 0xFFF;
                let k = self.sent_k;
                match path {
                    Path::Exact | Path::Slack => {
                        let (si, sout) = if path == Path::Slack { (*slack_in, *slack_out) } else { (0, 0) };
                        let wi = self.make_input(n_in, si, mask, *empty_inactive);
                        let mut wo: Vec<Vec<T>> = (0..nch)
                            .map(|ch| if !Self::active(mask, ch) && *empty_inactive { Vec::new() } else { vec![T::sentinel(k); g.out_next + sout] })
                            .collect();
                        let m = mask.as_deref();
                        alloc::arm();
                        let r = self.drv.pib(&wi, &mut wo, m);
                        let al = alloc::disarm();
                        so.allocs = al;
                        so.out = self.post_into(&g, &r, &wo, k, mask, n_in, &al);
                        so.res = r.map_err(|e| err_repr(&e));
                    }
                    Path::Max => {
                        let mut wi = std::mem::take(&mut self.alloc_in);
                        let mut wo = std::mem::take(&mut self.alloc_out);
                        for ch in 0..nch {
                            for (j, s) in wi[ch].iter_mut().enumerate() {
                                *s = if j < n_in { self.sample(ch, self.pos + j as u64) } else { Self::poison() };
                            }
                            for s in wo[ch].iter_mut() {
                                *s = T::sentinel(k);
                            }
                        }
                        let m = mask.as_deref();
                        alloc::arm();
                        let r = self.drv.pib(&wi, &mut wo, m);
                        let al = alloc::disarm();
                        so.allocs = al;
                        if let Err(e) = &r {
                            self.find("C04", "allocate_buffers_rejected", format!("buffers from *_buffer_allocate rejected: {}", err_repr(e)));
                        }
                        so.out = self.post_into(&g, &r, &wo, k, mask, n_in, &al);
                        so.res = r.map_err(|e| err_repr(&e));
                        self.alloc_in = wi;
                        self.alloc_out = wo;
                    }
                    Path::Vecs => {
                        let wi = self.make_input(n_in, 0, mask, *empty_inactive);
                        let r = self.drv.proc(&wi, mask.as_deref());
                        let (res, out) = self.post_vecs(&g, &r, mask);
                        so.res = res;
                        so.out = out;
                    }
                }
                if so.res.is_ok() {
                    self.pos += n_in as u64;
                    so.fed = n_in;
                    self.model.cur = self.model.tgt;
                }
            }
            Op::Partial { frac, into, mask, ragged } => {
                self.calls += 1;
                let n_in = g.in_next;
                let kfr = match frac {
                    Some(f) => {
                        let mut k = ((*f) * n_in as f64).floor() as usize;
                        if k < 1 {
                            k = 1;
                        }
                        if k > n_in {
                            k = n_in;
                        }
                        Some(k)
                    }
                    None => None,
                };
                let wi = kfr.map(|k| {
                    let mut w = self.make_input(k, 0, mask, false);
                    for (ch, c) in w.iter_mut().enumerate() {
                        c.truncate(partial_len(k, *ragged, ch, nch));
                    }
                    w
                });
                self.sent_k = self.sent_k.wrapping_add(1) & 0xFFF;
                let k = self.sent_k;
                if *into {
                    let mut wo: Vec<Vec<T>> = (0..nch).map(|_| vec![T::sentinel(k); g.out_next]).collect();
                    let r = self.drv.ppib(wi.as_deref(), &mut wo, mask.as_deref());
                    let al = AllocReport::default(); // the wrapper is documented to allocate
                    so.out = self.post_into(&g, &r, &wo, k, mask, n_in, &al);
                    so.res = r.map_err(|e| err_repr(&e));
                } else {
                    let r = self.drv.pp(wi.as_deref(), mask.as_deref());
                    let (res, out) = self.post_vecs(&g, &r, mask);
                    so.res = res;
                    so.out = out;
                }
                if so.res.is_ok() {
                    let fed = kfr.unwrap_or(0);
                    self.pos += fed as u64;
                    so.fed = fed;
                    self.model.cur = self.model.tgt;
                }
            }
            Op::SetRatio { v, ramp, rel } => {
                alloc::arm();
                let r = if *rel { self.drv.set_ratio_rel(*v, *ramp) } else { self.drv.set_ratio(*v, *ramp) };
                let al = alloc::disarm();
                so.allocs = al;
                if self.check_alloc && al.events != 0 {
                    self.find("C09", "alloc_in_setter", format!("{} allocator event(s) during set_resample_ratio", al.events));
                }
                match &r {
                    Ok(()) => {
                        let nv = if *rel { self.cfg.ratio * *v } else { *v };
                        if !*ramp {
                            self.model.cur = nv;
                        }
                        self.model.tgt = nv;
                    }
                    Err(_) => {}
                }
                so.res = r.map(|_| (0, 0)).map_err(|e| err_repr(&e));
            }
            Op::SetChunk(n) => {
                alloc::arm();
                let r = self.drv.set_chunk(*n);
                let al = alloc::disarm();
                so.allocs = al;
                if self.check_alloc && al.events != 0 {
                    self.find("C09", "alloc_in_setter", format!("{} allocator event(s) during set_chunk_size", al.events));
                }
                match r {
                    Some(Ok(())) => {
                        self.model.chunk = *n;
                        so.res = Ok((0, 0));
                    }
                    Some(Err(e)) => so.res = Err(err_repr(&e)),
                    None => so.res = Err("unsupported".into()),
                }
            }
            Op::Reset => {
                alloc::arm();
                let ok = self.drv.reset();
                let al = alloc::disarm();
                so.allocs = al;
                if self.check_alloc && al.events != 0 {
                    self.find("C09", "alloc_in_reset", format!("{} allocator event(s) during reset", al.events));
                }
                if ok {
                    self.model = Model { cur: self.cfg.ratio, tgt: self.cfg.ratio, chunk: self.cfg.chunk };
                }
            }
        }
        alloc::arm();
        let ga = self.drv.getters();
        let al = alloc::disarm();
        if self.check_alloc && al.events != 0 {
            self.find("C09", "alloc_in_getter", format!("{} allocator event(s) in the getters", al.events));
        }
        self.check_getters(&ga);
        so.after = ga;
        so
    }
}

// ------------------------------------------------------------------------------------------
// history generation

#[derive(Clone, Copy, Debug, PartialEq, Eq)]
pub enum MaskMode {
    None,
    Constant,
    Varying,
}

#[derive(Clone, Debug)]
pub struct HistProfile {
    pub max_ops: usize,
    pub mask_mode: Option<MaskMode>, // None: random
    pub allow_ratio: bool,
    pub allow_chunk: bool,
    pub allow_reset: bool,
    pub allow_partial: bool,
    pub allow_vecs: bool,
    pub ratio_weight: f64,
}

impl HistProfile {
    pub fn full(max_ops: usize) -> Self {
        HistProfile { max_ops, mask_mode: None, allow_ratio: true, allow_chunk: true, allow_reset: true, allow_partial: true, allow_vecs: true, ratio_weight: 0.2 }
    }
}

pub fn gen_mask(rng: &mut Rng, nch: usize) -> Vec<bool> {
    match rng.ui(0, 5) {
        0 => vec![false; nch],
        1 => vec![true; nch],
        _ => (0..nch).map(|_| rng.bool()).collect(),
    }
}

/// An in-range ratio (absolute) for cfg, with extra mass on the bounds and on big jumps.
pub fn gen_in_range_ratio(rng: &mut Rng, c: &Cfg) -> f64 {
    let (lo, hi) = (c.lo(), c.hi());
    let v = match rng.ui(0, 9) {
        0 => lo,
        1 => hi,
        2 => c.ratio,
        3 => {
            // just inside a bound
            if rng.bool() {
                lo * (1.0 + 1e-12)
            } else {
                hi * (1.0 - 1e-12)
            }
        }
        4 | 5 => {
            // near an extreme
            if rng.bool() {
                rng.logf(lo, (lo * 1.2).min(hi))
            } else {
                rng.logf((hi / 1.2).max(lo), hi)
            }
        }
        _ => rng.logf(lo, hi),
    };
    v.clamp(lo, hi)
}

pub fn gen_proc(rng: &mut Rng, c: &Cfg, mask: Option<Vec<bool>>, allow_vecs: bool) -> Op {
    let path = match rng.ui(0, 9) {
        0 | 1 | 2 => Path::Exact,
        3 | 4 | 5 => Path::Slack,
        6 | 7 => Path::Max,
        _ => {
            if allow_vecs {
                Path::Vecs
            } else {
                Path::Exact
            }
        }
    };
    let _ = c;
    Op::Proc { path, slack_in: rng.ui(0, 17), slack_out: rng.ui(0, 17), mask, empty_inactive: rng.bool() }
}

pub fn gen_history(rng: &mut Rng, c: &Cfg, p: &HistProfile) -> Vec<Op> {
    let n = rng.logi(1, p.max_ops.max(1));
    let mode = p.mask_mode.unwrap_or_else(|| match rng.ui(0, 9) {
        0..=5 => MaskMode::None,
        6 | 7 => MaskMode::Constant,
        _ => MaskMode::Varying,
    });
    let const_mask = gen_mask(rng, c.channels);
    let mut ops = Vec::with_capacity(n);
    let is_async = c.kind.is_async();
    let rw = if is_async && p.allow_ratio && c.max_rel > 1.0 { p.ratio_weight } else if is_async && p.allow_ratio { p.ratio_weight * 0.2 } else { 0.0 };
    let cw = if c.kind.is_sinc() && p.allow_chunk { 0.07 } else { 0.0 };
    let zw = if p.allow_reset { 0.03 } else { 0.0 };
    let pw = if p.allow_partial { 0.08 } else { 0.0 };
    for _ in 0..n {
        let mask = match mode {
            MaskMode::None => None,
            MaskMode::Constant => Some(const_mask.clone()),
            MaskMode::Varying => {
                if rng.chance(0.3) {
                    None
                } else {
                    Some(gen_mask(rng, c.channels))
                }
            }
        };
        let x = rng.f();
        let op = if x < rw {
            let rel = rng.chance(0.3);
            let v = gen_in_range_ratio(rng, c);
            let ramp = rng.bool();
            if rel {
                // relative factor in [1/max, max]
                let f = match rng.ui(0, 5) {
                    0 => c.max_rel,
                    1 => 1.0 / c.max_rel,
                    2 => 1.0,
                    _ => (v / c.ratio).clamp(1.0 / c.max_rel, c.max_rel),
                };
                Op::SetRatio { v: f, ramp, rel: true }
            } else {
                Op::SetRatio { v, ramp, rel: false }
            }
        } else if x < rw + cw {
            let n = match rng.ui(0, 4) {
                0 => 1,
                1 => c.chunk,
                2 => rng.ui(1, c.chunk.min(8)),
                _ => rng.ui(1, c.chunk),
            };
            Op::SetChunk(n)
        } else if x < rw + cw + zw {
            Op::Reset
        } else if x < rw + cw + zw + pw {
            let frac = if rng.chance(0.35) { None } else { Some(rng.f()) };
            Op::Partial { frac, into: rng.bool(), mask, ragged: if rng.chance(0.3) { Some(rng.next()) } else { None } }
        } else {
            gen_proc(rng, c, mask, p.allow_vecs)
        };
        ops.push(op);
    }
    // make sure at least one processing call exists
    if !ops.iter().any(|o| o.is_process()) {
        ops.push(gen_proc(rng, c, None, p.allow_vecs));
    }
    ops
}

pub fn kind_of(c: &Cfg) -> Kind {
    c.kind
}

// ------------------------------------------------------------------------------------------
// lock-step comparison helpers (M-TWIN)

pub fn bits_eq<T: Smp>(a: &[T], b: &[T]) -> bool {
    a.len() == b.len() && a.iter().zip(b.iter()).all(|(x, y)| x.bits() == y.bits() || (x.isnan() && y.isnan()))
}

/// First difference between two step results (bit-exact outputs, counts, getters); None if equal.
pub fn diff_steps<T: Smp>(a: &StepOut<T>, b: &StepOut<T>, compare_nch: bool) -> Option<String> {
    if a.res != b.res {
        return Some(format!("result {:?} vs {:?}", a.res, b.res));
    }
    let ga = (a.before, a.after);
    let gb = (b.before, b.after);
    let strip = |g: Getters| if compare_nch { g } else { Getters { nch: 0, ..g } };
    if strip(ga.0) != strip(gb.0) {
        return Some(format!("getters before the call {:?} vs {:?}", ga.0, gb.0));
    }
    if strip(ga.1) != strip(gb.1) {
        return Some(format!("getters after the call {:?} vs {:?}", ga.1, gb.1));
    }
    if a.out.len() != b.out.len() {
        return Some(format!("{} vs {} output channels", a.out.len(), b.out.len()));
    }
    for ch in 0..a.out.len() {
        if let Some(d) = diff_chan(&a.out[ch], &b.out[ch]) {
            return Some(format!("channel {}: {}", ch, d));
        }
    }
    None
}

pub fn diff_chan<T: Smp>(a: &[T], b: &[T]) -> Option<String> {
    if a.len() != b.len() {
        return Some(format!("{} vs {} frames", a.len(), b.len()));
    }
    for (j, (x, y)) in a.iter().zip(b.iter()).enumerate() {
        if !(x.bits() == y.bits() || (x.isnan() && y.isnan())) {
            return Some(format!("frame {} differs: {:?} vs {:?}", j, x, y));
        }
    }
    None
}

// ------------------------------------------------------------------------------------------
// malformed calls (C13)

#[derive(Clone, Debug, PartialEq)]
pub enum Bad {
    /// number of input channels = given value (!= nch)
    InChannels(usize),
    OutChannels(usize),
    /// active input channel `ch` has `need - short` frames (short >= 1)
    InShort { ch: usize, short: usize },
    OutShort { ch: usize, short: usize },
    /// mask of the given length (!= nch)
    MaskLen(usize),
}

#[derive(Clone, Debug)]
pub struct BadCall {
    pub bad: Bad,
    /// a mask of the right length passed along with the malformed buffers (the short channel is active)
    pub mask: Option<Vec<bool>>,
    /// through process() instead of process_into_buffer (input / mask shapes only)
    pub via_process: bool,
    /// through the partial entry points (mask-length and output shapes only; a short or missing input is
    /// legal there): 1 = process_partial(Some(half the frames)), 2 = process_partial(None),
    /// 3 = process_partial_into_buffer(Some(..)), 4 = process_partial_into_buffer(None); 0 = not
    pub partial: u8,
}

impl BadCall {
    pub fn json(&self) -> J {
        J::obj()
            .with("op", J::s("malformed"))
            .with("shape", J::s(&format!("{:?}", self.bad)))
            .with("via_process", J::b(self.via_process))
            .with("via_partial", J::s(["no", "process_partial(Some)", "process_partial(None)", "process_partial_into_buffer(Some)", "process_partial_into_buffer(None)"][self.partial.min(4) as usize]))
            .with("mask", self.mask.as_ref().map(|m| J::Arr(m.iter().map(|b| J::b(*b)).collect())).unwrap_or(J::Null))
    }
}

pub fn gen_bad(rng: &mut Rng, nch: usize) -> BadCall {
    let bad = match rng.ui(0, 4) {
        0 => {
            let n = if rng.bool() && nch > 0 { rng.ui(0, nch - 1) } else { nch + rng.ui(1, 3) };
            Bad::InChannels(n)
        }
        1 => {
            let n = if rng.bool() && nch > 0 { rng.ui(0, nch - 1) } else { nch + rng.ui(1, 3) };
            Bad::OutChannels(n)
        }
        2 => Bad::InShort { ch: rng.ui(0, nch - 1), short: if rng.bool() { 1 } else { rng.ui(1, 1 << 20) } },
        3 => Bad::OutShort { ch: rng.ui(0, nch - 1), short: if rng.bool() { 1 } else { rng.ui(1, 1 << 20) } },
        _ => {
            let n = if rng.bool() && nch > 0 { rng.ui(0, nch - 1) } else { nch + rng.ui(1, 3) };
            Bad::MaskLen(n)
        }
    };
    let via_process = matches!(bad, Bad::InChannels(_) | Bad::InShort { .. } | Bad::MaskLen(_)) && rng.chance(0.3);
    let mask = if !matches!(bad, Bad::MaskLen(_)) && rng.chance(0.45) {
        let mut m: Vec<bool> = (0..nch).map(|_| rng.bool()).collect();
        match &bad {
            Bad::InShort { ch, .. } | Bad::OutShort { ch, .. } => m[*ch] = true,
            _ => {}
        }
        Some(m)
    } else {
        None
    };
    let partial = if via_process || !rng.chance(0.25) {
        0
    } else {
        match bad {
            Bad::MaskLen(_) => rng.ui(1, 4) as u8,
            Bad::OutChannels(_) | Bad::OutShort { .. } => rng.ui(3, 4) as u8,
            _ => 0,
        }
    };
    BadCall { bad, mask, via_process, partial }
}

/// Outcome of a malformed call: list of C13 clause violations (empty = behaved as documented),
/// and whether the shape was applicable at this point of the history.
pub fn do_bad_call<T: Smp>(run: &mut Runner<T>, bc: &BadCall) -> (bool, Vec<(&'static str, String)>) {
    let g = run.drv.getters();
    let nch = run.cfg.channels;
    let mut v = Vec::new();
    let k = 0x777u32;
    let mut n_in_ch = nch;
    let mut n_out_ch = nch;
    let mut in_len = vec![g.in_next; nch.max(8) + 4];
    let mut out_len = vec![g.out_next; nch.max(8) + 4];
    let mut mask: Option<Vec<bool>> = bc.mask.clone();
    let expect: String;
    match &bc.bad {
        Bad::InChannels(n) => {
            n_in_ch = *n;
            expect = format!("WrongNumberOfInputChannels{{expected:{},actual:{}}}", nch, n);
        }
        Bad::OutChannels(n) => {
            n_out_ch = *n;
            expect = format!("WrongNumberOfOutputChannels{{expected:{},actual:{}}}", nch, n);
        }
        Bad::InShort { ch, short } => {
            if g.in_next == 0 {
                return (false, v);
            }
            let s = (*short).min(g.in_next).max(1);
            in_len[*ch] = g.in_next - s;
            expect = format!("InsufficientInputBufferSize{{channel:{},expected:{},actual:{}}}", ch, g.in_next, g.in_next - s);
        }
        Bad::OutShort { ch, short } => {
            if g.out_next == 0 {
                return (false, v);
            }
            let s = (*short).min(g.out_next).max(1);
            out_len[*ch] = g.out_next - s;
            expect = format!("InsufficientOutputBufferSize{{channel:{},expected:{},actual:{}}}", ch, g.out_next, g.out_next - s);
        }
        Bad::MaskLen(n) => {
            mask = Some(vec![true; *n]);
            expect = format!("WrongNumberOfMaskChannels{{expected:{},actual:{}}}", nch, n);
        }
    }
    let pm = bc.partial;
    if pm == 1 || pm == 3 {
        // a partial input: half the frames, but not none (an empty active channel is itself rejected)
        for l in in_len.iter_mut() {
            *l = (*l / 2).max((*l).min(1));
        }
    }
    let wi: Vec<Vec<T>> = (0..n_in_ch).map(|ch| (0..in_len[ch]).map(|j| run.sample(ch % nch.max(1), run.pos + j as u64)).collect()).collect();
    let mut wo: Vec<Vec<T>> = (0..n_out_ch).map(|ch| vec![T::sentinel(k); out_len[ch]]).collect();
    let m = mask.as_deref();
    let drv = &mut run.drv;
    let via = bc.via_process || pm == 1 || pm == 2;
    let entry = match pm {
        1 => " via process_partial(Some)",
        2 => " via process_partial(None)",
        3 => " via process_partial_into_buffer(Some)",
        4 => " via process_partial_into_buffer(None)",
        _ => {
            if via {
                " via process()"
            } else {
                ""
            }
        }
    };
    let mut allocs = AllocReport::default();
    let r = crate::mon::guarded(|| {
        if pm == 1 {
            drv.pp(Some(&wi), m).map(|v| (0usize, v.first().map(|c| c.len()).unwrap_or(0)))
        } else if pm == 2 {
            drv.pp(None, m).map(|v| (0usize, v.first().map(|c| c.len()).unwrap_or(0)))
        } else if pm == 3 {
            drv.ppib(Some(&wi), &mut wo, m)
        } else if pm == 4 {
            drv.ppib(None, &mut wo, m)
        } else if via {
            drv.proc(&wi, m).map(|v| (0usize, v.first().map(|c| c.len()).unwrap_or(0)))
        } else {
            alloc::arm();
            let r = drv.pib(&wi, &mut wo, m);
            allocs = alloc::disarm();
            r
        }
    });
    if allocs.events != 0 {
        // C09 covers failing calls too: the error path of process_into_buffer must not touch the heap
        v.push(("alloc_on_error_path", format!("{:?}: {} allocator event(s) during the failing process_into_buffer call, first: {} of {} bytes", bc.bad, allocs.events, allocs.kind_name(), allocs.first_size)));
    }
    match r {
        Err(p) => v.push(("panic_on_malformed", format!("{:?}{}: panicked: {}", bc.bad, entry, p))),
        Ok(Ok((i, o))) => v.push(("ok_on_malformed", format!("{:?}{}: returned Ok(({},{})), expected Err {}", bc.bad, entry, i, o, expect))),
        Ok(Err(e)) => {
            let got = err_repr(&e);
            if got != expect {
                v.push(("wrong_error", format!("{:?}{}: returned {}, expected {}", bc.bad, entry, got, expect)));
            }
        }
    }
    if !via {
        for (ch, b) in wo.iter().enumerate() {
            if b.iter().any(|s| !s.is_sentinel(k)) {
                v.push(("write_on_err", format!("{:?}: output channel {} was written by the failing call", bc.bad, ch)));
                break;
            }
        }
    }
    let ga = run.drv.getters();
    if ga != g {
        v.push(("getters_changed", format!("{:?}: getters changed by the failing call: {:?} -> {:?}", bc.bad, g, ga)));
    }
    (true, v)
}
