//! Deterministic test signals, addressed by (channel, absolute frame number).

use crate::rng::mix;

#[derive(Clone, Debug)]
pub enum SigKind {
    /// broadband noise (peak 0.6) + slow ramp/sine (peak 0.4): a lost, duplicated or stale
    /// frame changes the stream by O(1)
    Noise,
    /// x[n] = n+1 : every frame carries its own id (M-IDX)
    Index,
    Zero,
    /// sum of tones: (freq cycles/sample, amplitude, phase)
    Tones(Vec<(f64, f64, f64)>),
    /// polynomial in u = (n - c)/s with coefficients (ascending)
    Poly { c: f64, s: f64, coef: Vec<f64> },
    /// explicit samples (zero beyond the end)
    Table(Vec<f64>),
    /// the noise signal scaled into the subnormal range of the sample type
    Faint(f64),
}

#[derive(Clone, Debug)]
pub struct Sig {
    pub seed: u64,
    pub kind: SigKind,
}

impl Sig {
    pub fn noise(seed: u64) -> Self {
        Sig { seed, kind: SigKind::Noise }
    }
    pub fn index() -> Self {
        Sig { seed: 0, kind: SigKind::Index }
    }
    pub fn at(&self, ch: usize, n: u64) -> f64 {
        match &self.kind {
            SigKind::Noise => {
                let h = mix(&[self.seed, ch as u64, n]);
                let u = (h >> 11) as f64 / (1u64 << 53) as f64; // [0,1)
                let noise = (2.0 * u - 1.0) * 0.6;
                let slow = 0.4 * ((n as f64) * 0.001 * (1.0 + ch as f64 * 0.37) + ch as f64).sin();
                noise + slow
            }
            SigKind::Faint(scale) => Sig { seed: self.seed, kind: SigKind::Noise }.at(ch, n) * scale,
            SigKind::Index => (n + 1) as f64 + 1000.0 * ch as f64 * 0.0, // same id in every channel
            SigKind::Zero => 0.0,
            SigKind::Tones(ts) => {
                let mut v = 0.0;
                for (f, a, p) in ts {
                    v += a * (2.0 * std::f64::consts::PI * f * n as f64 + p + ch as f64 * 0.0).cos();
                }
                v
            }
            SigKind::Poly { c, s, coef } => {
                let u = (n as f64 - c) / s;
                let mut v = 0.0;
                for k in (0..coef.len()).rev() {
                    v = v * u + coef[k];
                }
                v
            }
            SigKind::Table(t) => {
                if (n as usize) < t.len() {
                    t[n as usize]
                } else {
                    0.0
                }
            }
        }
    }
}
