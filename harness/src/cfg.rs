//! Configurations of the seven resampler types, mirrored enums (rubato's own are not Clone),
//! generators, and the sample-type abstraction used by every monitor.

use crate::json::J;
use crate::rng::Rng;
use rubato::{PolynomialDegree, SincInterpolationType, WindowFunction};

pub trait Smp:
    rubato::Sample + PartialEq + PartialOrd + std::fmt::Debug + std::fmt::Display + 'static
{
    const NAME: &'static str;
    const EPS: f64;
    const IS32: bool;
    fn of64(x: f64) -> Self;
    fn f64(self) -> f64;
    fn bits(self) -> u64;
    /// A quiet NaN carrying a payload; never produced by arithmetic on finite data.
    fn sentinel(k: u32) -> Self;
    fn isnan(self) -> bool;
    fn is_sentinel(self, k: u32) -> bool {
        self.bits() == Self::sentinel(k).bits()
    }
}

impl Smp for f32 {
    const NAME: &'static str = "f32";
    const EPS: f64 = f32::EPSILON as f64;
    const IS32: bool = true;
    fn of64(x: f64) -> Self {
        x as f32
    }
    fn f64(self) -> f64 {
        self as f64
    }
    fn bits(self) -> u64 {
        self.to_bits() as u64
    }
    fn sentinel(k: u32) -> Self {
        f32::from_bits(0x7FC0_0000 | (0x15_0000 + (k & 0xFFFF)))
    }
    fn isnan(self) -> bool {
        self.is_nan()
    }
}
impl Smp for f64 {
    const NAME: &'static str = "f64";
    const EPS: f64 = f64::EPSILON;
    const IS32: bool = false;
    fn of64(x: f64) -> Self {
        x
    }
    fn f64(self) -> f64 {
        self
    }
    fn bits(self) -> u64 {
        self.to_bits()
    }
    fn sentinel(k: u32) -> Self {
        f64::from_bits(0x7FF8_0000_0000_0000 | (0x5EED_0000_0000 + k as u64))
    }
    fn isnan(self) -> bool {
        self.is_nan()
    }
}

#[derive(Clone, Copy, Debug, PartialEq, Eq, Hash, PartialOrd, Ord)]
pub enum Kind {
    SincIn,
    SincOut,
    FastIn,
    FastOut,
    FftIn,
    FftOut,
    FftInOut,
}
pub const ALL_KINDS: [Kind; 7] = [
    Kind::SincIn,
    Kind::SincOut,
    Kind::FastIn,
    Kind::FastOut,
    Kind::FftIn,
    Kind::FftOut,
    Kind::FftInOut,
];
pub const ASYNC_KINDS: [Kind; 4] = [Kind::SincIn, Kind::SincOut, Kind::FastIn, Kind::FastOut];

impl Kind {
    pub fn name(self) -> &'static str {
        match self {
            Kind::SincIn => "SincFixedIn",
            Kind::SincOut => "SincFixedOut",
            Kind::FastIn => "FastFixedIn",
            Kind::FastOut => "FastFixedOut",
            Kind::FftIn => "FftFixedIn",
            Kind::FftOut => "FftFixedOut",
            Kind::FftInOut => "FftFixedInOut",
        }
    }
    pub fn is_async(self) -> bool {
        matches!(self, Kind::SincIn | Kind::SincOut | Kind::FastIn | Kind::FastOut)
    }
    pub fn is_sinc(self) -> bool {
        matches!(self, Kind::SincIn | Kind::SincOut)
    }
    pub fn is_fast(self) -> bool {
        matches!(self, Kind::FastIn | Kind::FastOut)
    }
    pub fn is_fft(self) -> bool {
        !self.is_async()
    }
    /// output size is exactly output_frames_next()
    pub fn exact_out(self) -> bool {
        !matches!(self, Kind::SincIn | Kind::FastIn)
    }
    pub fn fixed_in(self) -> bool {
        matches!(self, Kind::SincIn | Kind::FastIn | Kind::FftIn | Kind::FftInOut)
    }
    pub fn idx(self) -> usize {
        ALL_KINDS.iter().position(|k| *k == self).unwrap()
    }
}

#[derive(Clone, Copy, Debug, PartialEq, Eq, Hash)]
pub enum Interp {
    Cubic,
    Quadratic,
    Linear,
    Nearest,
}
pub const ALL_INTERP: [Interp; 4] = [Interp::Cubic, Interp::Quadratic, Interp::Linear, Interp::Nearest];
impl Interp {
    pub fn to_rubato(self) -> SincInterpolationType {
        match self {
            Interp::Cubic => SincInterpolationType::Cubic,
            Interp::Quadratic => SincInterpolationType::Quadratic,
            Interp::Linear => SincInterpolationType::Linear,
            Interp::Nearest => SincInterpolationType::Nearest,
        }
    }
    pub fn name(self) -> &'static str {
        match self {
            Interp::Cubic => "Cubic",
            Interp::Quadratic => "Quadratic",
            Interp::Linear => "Linear",
            Interp::Nearest => "Nearest",
        }
    }
}

#[derive(Clone, Copy, Debug, PartialEq, Eq, Hash)]
pub enum Deg {
    Septic,
    Quintic,
    Cubic,
    Linear,
    Nearest,
}
pub const ALL_DEG: [Deg; 5] = [Deg::Septic, Deg::Quintic, Deg::Cubic, Deg::Linear, Deg::Nearest];
impl Deg {
    pub fn to_rubato(self) -> PolynomialDegree {
        match self {
            Deg::Septic => PolynomialDegree::Septic,
            Deg::Quintic => PolynomialDegree::Quintic,
            Deg::Cubic => PolynomialDegree::Cubic,
            Deg::Linear => PolynomialDegree::Linear,
            Deg::Nearest => PolynomialDegree::Nearest,
        }
    }
    pub fn name(self) -> &'static str {
        match self {
            Deg::Septic => "Septic",
            Deg::Quintic => "Quintic",
            Deg::Cubic => "Cubic",
            Deg::Linear => "Linear",
            Deg::Nearest => "Nearest",
        }
    }
    /// highest polynomial degree reproduced exactly
    pub fn degree(self) -> usize {
        match self {
            Deg::Septic => 7,
            Deg::Quintic => 5,
            Deg::Cubic => 3,
            Deg::Linear => 1,
            Deg::Nearest => 0,
        }
    }
}

#[derive(Clone, Copy, Debug, PartialEq, Eq, Hash)]
pub enum Win {
    Blackman,
    Blackman2,
    BlackmanHarris,
    BlackmanHarris2,
    Hann,
    Hann2,
}
pub const ALL_WIN: [Win; 6] = [
    Win::Blackman,
    Win::Blackman2,
    Win::BlackmanHarris,
    Win::BlackmanHarris2,
    Win::Hann,
    Win::Hann2,
];
impl Win {
    pub fn to_rubato(self) -> WindowFunction {
        match self {
            Win::Blackman => WindowFunction::Blackman,
            Win::Blackman2 => WindowFunction::Blackman2,
            Win::BlackmanHarris => WindowFunction::BlackmanHarris,
            Win::BlackmanHarris2 => WindowFunction::BlackmanHarris2,
            Win::Hann => WindowFunction::Hann,
            Win::Hann2 => WindowFunction::Hann2,
        }
    }
    pub fn name(self) -> &'static str {
        match self {
            Win::Blackman => "Blackman",
            Win::Blackman2 => "Blackman2",
            Win::BlackmanHarris => "BlackmanHarris",
            Win::BlackmanHarris2 => "BlackmanHarris2",
            Win::Hann => "Hann",
            Win::Hann2 => "Hann2",
        }
    }
    /// C02 stop-band rejection figure (dB, positive) from the property statement.
    pub fn stop_db(self) -> f64 {
        match self {
            Win::Hann => 41.0,
            Win::Hann2 => 58.0,
            Win::Blackman => 72.0,
            Win::Blackman2 => 99.0,
            Win::BlackmanHarris => 105.0,
            Win::BlackmanHarris2 => 138.0,
        }
    }
    /// C01 far-stop-band leakage figure (dB, positive) from the property statement.
    pub fn leak_db(self) -> f64 {
        match self {
            Win::Hann => 80.0,
            Win::Blackman => 92.0,
            Win::Hann2 => 105.0,
            Win::BlackmanHarris => 120.0,
            Win::Blackman2 => 125.0,
            Win::BlackmanHarris2 => 130.0,
        }
    }
    /// C01 amplitude tolerance
    pub fn amp_tol(self) -> f64 {
        match self {
            Win::Hann | Win::Hann2 => 0.01,
            _ => 0.001,
        }
    }
    pub fn cutoff(self, len: usize) -> f64 {
        rubato::calculate_cutoff::<f64>(len, self.to_rubato())
    }
}

#[derive(Clone, Debug)]
pub struct Cfg {
    pub kind: Kind,
    pub channels: usize,
    pub chunk: usize,
    // asynchronous
    pub ratio: f64,
    pub max_rel: f64,
    // sinc
    pub sinc_len: usize,
    pub f_cutoff: f32,
    pub oversampling: usize,
    pub interp: Interp,
    pub window: Win,
    // polynomial
    pub degree: Deg,
    // fft
    pub fs_in: usize,
    pub fs_out: usize,
    pub sub_chunks: usize,
    /// sinc types: which interpolation kernel drives the resampler (Auto = the constructor's own run-time
    /// dispatch; otherwise the public kernel type is built explicitly and passed to new_with_interpolator)
    pub kernel: Kernel,
    /// the harness drives the instance through `&mut dyn VecResampler` (the object-safe wrapper trait)
    /// for every method that trait has
    pub via_dyn: bool,
}

#[derive(Clone, Copy, Debug, PartialEq, Eq, Hash)]
pub enum Kernel {
    Auto,
    Scalar,
    Sse,
    Avx,
}
impl Kernel {
    pub fn name(self) -> &'static str {
        match self {
            Kernel::Auto => "auto",
            Kernel::Scalar => "scalar",
            Kernel::Sse => "sse",
            Kernel::Avx => "avx",
        }
    }
}

impl Default for Cfg {
    fn default() -> Self {
        Cfg {
            kind: Kind::SincIn,
            channels: 1,
            chunk: 256,
            ratio: 1.0,
            max_rel: 1.0,
            sinc_len: 64,
            f_cutoff: 0.9,
            oversampling: 16,
            interp: Interp::Cubic,
            window: Win::BlackmanHarris2,
            degree: Deg::Cubic,
            fs_in: 44100,
            fs_out: 48000,
            sub_chunks: 1,
            kernel: Kernel::Auto,
            via_dyn: false,
        }
    }
}

pub fn gcd(a: usize, b: usize) -> usize {
    if b == 0 {
        a
    } else {
        gcd(b, a % b)
    }
}

impl Cfg {
    /// rounded-up filter length (8 for the polynomial types, 0 for FFT)
    pub fn flen(&self) -> usize {
        match self.kind {
            Kind::SincIn | Kind::SincOut => 8 * ((self.sinc_len + 7) / 8),
            Kind::FastIn | Kind::FastOut => 8,
            _ => 0,
        }
    }
    /// nominal ratio (fs_out/fs_in for the synchronous types)
    pub fn r(&self) -> f64 {
        if self.kind.is_async() {
            self.ratio
        } else {
            self.fs_out as f64 / self.fs_in as f64
        }
    }
    pub fn lo(&self) -> f64 {
        self.ratio / self.max_rel
    }
    pub fn hi(&self) -> f64 {
        self.ratio * self.max_rel
    }
    /// (fft_size_in, fft_size_out) as the documented construction resolves them
    pub fn fft_sizes(&self) -> (usize, usize) {
        let g = gcd(self.fs_in, self.fs_out);
        let (min_in, min_out) = (self.fs_in / g, self.fs_out / g);
        let blocks = match self.kind {
            Kind::FftInOut => (self.chunk + min_in - 1) / min_in,
            Kind::FftIn => {
                let w = self.chunk / self.sub_chunks;
                (w + min_in - 1) / min_in
            }
            Kind::FftOut => {
                let w = self.chunk / self.sub_chunks;
                (w + min_out - 1) / min_out
            }
            _ => 0,
        }
        .max(1);
        (blocks * min_in, blocks * min_out)
    }
    pub fn class(&self) -> String {
        // coarse configuration class used to count distinct non-trivial cases
        let b = |x: f64| (x.log2() * 2.0).round() as i64;
        match self.kind {
            Kind::SincIn | Kind::SincOut => format!(
                "{}:r{}:m{}:c{}:L{}:N{}:{}:{}",
                self.kind.name(),
                b(self.ratio),
                b(self.max_rel),
                b(self.chunk as f64),
                self.flen(),
                b(self.oversampling as f64),
                self.interp.name(),
                self.window.name()
            ),
            Kind::FastIn | Kind::FastOut => format!(
                "{}:r{}:m{}:c{}:{}",
                self.kind.name(),
                b(self.ratio),
                b(self.max_rel),
                b(self.chunk as f64),
                self.degree.name()
            ),
            _ => format!(
                "{}:{}:{}:c{}:s{}",
                self.kind.name(),
                self.fs_in,
                self.fs_out,
                b(self.chunk as f64),
                self.sub_chunks
            ),
        }
    }
    pub fn json(&self) -> J {
        let mut o = J::obj();
        o.set("type", J::s(self.kind.name()));
        o.set("channels", J::u(self.channels));
        o.set("chunk", J::u(self.chunk));
        if self.kind.is_async() {
            o.set("ratio", J::f(self.ratio));
            o.set("max_rel", J::f(self.max_rel));
        }
        if self.kind.is_sinc() {
            o.set("sinc_len", J::u(self.sinc_len));
            o.set("f_cutoff", J::f(self.f_cutoff as f64));
            o.set("oversampling", J::u(self.oversampling));
            o.set("interp", J::s(self.interp.name()));
            o.set("window", J::s(self.window.name()));
            if self.kernel != Kernel::Auto {
                o.set("interpolator_kernel", J::s(self.kernel.name()));
            }
        }
        if self.via_dyn {
            o.set("driven_through_dyn_vecresampler", J::b(true));
        }
        if self.kind.is_fast() {
            o.set("degree", J::s(self.degree.name()));
        }
        if self.kind.is_fft() {
            o.set("fs_in", J::u(self.fs_in));
            o.set("fs_out", J::u(self.fs_out));
            if self.kind != Kind::FftInOut {
                o.set("sub_chunks", J::u(self.sub_chunks));
            }
        }
        o
    }
}

/// Generation profile: bounds that keep a workload affordable for a given build.
#[derive(Clone, Debug)]
pub struct GenProfile {
    pub kinds: Vec<Kind>,
    pub max_chunk: usize,
    pub max_channels: usize,
    pub max_sinc_len: usize,
    pub max_oversampling: usize,
    pub max_max_rel: f64,
    pub ratio_span: f64, // ratios in [1/span, span]
    pub max_fft_block: usize,
    /// allow the D13 configuration (cubic/quadratic with oversampling 1)
    pub allow_n1_poly: bool,
}

impl GenProfile {
    pub fn standard() -> Self {
        GenProfile {
            kinds: ALL_KINDS.to_vec(),
            max_chunk: 4096,
            max_channels: 8,
            max_sinc_len: 512,
            max_oversampling: 2048,
            max_max_rel: 16.0,
            ratio_span: 16.0,
            max_fft_block: 8192,
            allow_n1_poly: false,
        }
    }
    pub fn small() -> Self {
        GenProfile {
            kinds: ALL_KINDS.to_vec(),
            max_chunk: 512,
            max_channels: 4,
            max_sinc_len: 128,
            max_oversampling: 256,
            max_max_rel: 16.0,
            ratio_span: 16.0,
            max_fft_block: 1024,
            allow_n1_poly: false,
        }
    }
    /// for interpreters (Miri) and valgrind
    pub fn tiny() -> Self {
        GenProfile {
            kinds: ALL_KINDS.to_vec(),
            max_chunk: 48,
            max_channels: 2,
            max_sinc_len: 24,
            max_oversampling: 8,
            max_max_rel: 8.0,
            ratio_span: 8.0,
            max_fft_block: 64,
            allow_n1_poly: false,
        }
    }
    pub fn with_kinds(mut self, k: &[Kind]) -> Self {
        self.kinds = k.to_vec();
        self
    }
}

pub fn gen_chunk(rng: &mut Rng, max: usize) -> usize {
    let c = match rng.ui(0, 9) {
        0 => rng.ui(1, 9),
        1 => *rng.pick(&[255usize, 256, 257, 1023, 1024, 1025, 4095, 4096]),
        2 => *rng.pick(&[1usize, 1, 2, 3]),
        _ => rng.logi(1, max),
    };
    c.clamp(1, max)
}

pub fn gen_ratio(rng: &mut Rng, span: f64, chunk: usize) -> f64 {
    let r = match rng.ui(0, 9) {
        0 => *rng.pick(&[1.0, 2.0, 0.5, 3.0, 1.0 / 3.0, 4.0, 0.25, 8.0, 0.125, 16.0, 0.0625]),
        1 => *rng.pick(&[147.0 / 160.0, 160.0 / 147.0, 96000.0 / 44100.0, 44100.0 / 96000.0, 48000.0 / 44100.0]),
        2 => {
            // hostile: chunk/(n+eps) -- needed-size formulas sit on an integer boundary
            let n = rng.ui(1, (chunk * 4).max(2));
            let eps = *rng.pick(&[1e-9, -1e-9, 1e-6, -1e-6, 1e-12, 0.0]);
            chunk as f64 / (n as f64 + eps)
        }
        _ => rng.logf(1.0 / span, span),
    };
    if r.is_finite() && r > 0.0 {
        r.clamp(1.0 / span, span)
    } else {
        1.0
    }
}

pub fn gen_max_rel(rng: &mut Rng, max: f64) -> f64 {
    let m = match rng.ui(0, 9) {
        0 => 1.0,
        1 => 1.0 + f64::EPSILON,
        2 => *rng.pick(&[1.001, 1.1, 2.0, 10.0, 16.0, 3.0, 8.0]),
        3 | 4 => rng.logf(1.0, 1.2),
        _ => rng.logf(1.0, max),
    };
    m.min(max)
}

pub const AUDIO_RATES: [usize; 10] = [8000, 11025, 16000, 22050, 32000, 44100, 48000, 88200, 96000, 192000];

pub fn gen_rate_pair(rng: &mut Rng) -> (usize, usize) {
    loop {
        let (a, b) = match rng.ui(0, 5) {
            0 | 1 => (*rng.pick(&AUDIO_RATES), *rng.pick(&AUDIO_RATES)),
            2 => {
                let a = rng.ui(1, 40);
                let b = rng.ui(1, 40);
                (a, b)
            }
            3 => {
                let a = rng.ui(2, 400);
                if rng.bool() {
                    (a, a + 1)
                } else {
                    (a + 1, a)
                }
            }
            4 => {
                let k = rng.ui(1, 16);
                let base = rng.ui(1, 50);
                if rng.bool() {
                    (base, base * k)
                } else {
                    (base * k, base)
                }
            }
            _ => (rng.ui(1, 2000), rng.ui(1, 2000)),
        };
        let r = b as f64 / a as f64;
        if (1.0 / 16.0..=16.0).contains(&r) {
            return (a, b);
        }
    }
}

/// Random configuration inside the stated domain (chunk>=1, sub_chunks>=1, channels>=1,
/// sinc_len>=8, oversampling>=1, sizes < 2^20).
pub fn gen_cfg(rng: &mut Rng, p: &GenProfile) -> Cfg {
    let kind = *rng.pick(&p.kinds);
    gen_cfg_kind(rng, p, kind)
}

pub fn gen_cfg_kind(rng: &mut Rng, p: &GenProfile, kind: Kind) -> Cfg {
    let mut c = Cfg::default();
    c.kind = kind;
    c.channels = if rng.chance(0.5) { rng.ui(1, 2.min(p.max_channels)) } else { rng.ui(1, p.max_channels) };
    c.chunk = gen_chunk(rng, p.max_chunk);
    if kind.is_async() {
        c.ratio = gen_ratio(rng, p.ratio_span, c.chunk);
        c.max_rel = gen_max_rel(rng, p.max_max_rel);
        if rng.chance(0.03) && p.ratio_span >= 16.0 {
            // beyond the everyday range: the constructors accept any positive ratio / any max_relative >= 1
            if rng.bool() {
                c.ratio = rng.logf(1.0 / 64.0, 64.0);
            } else {
                c.max_rel = rng.logf(16.0, 64.0);
            }
            c.chunk = c.chunk.min(256);
        }
        if rng.chance(0.04) {
            // near-integer read positions: power-of-two ratio that can only be nudged by a few ulps
            c.ratio = (2.0f64).powi(rng.ui(0, 8) as i32 - 4).clamp(1.0 / p.ratio_span, p.ratio_span);
            c.max_rel = 1.0 + f64::EPSILON * *rng.pick(&[1.0, 2.0, 3.0, 4.0, 8.0, 1e3, 1e6]);
        }
        // keep buffers affordable: chunk*ratio*max_rel and chunk/ratio*max_rel bounded
        let cap = 1.5e5;
        while (c.chunk as f64 + 64.0) * c.ratio.max(1.0 / c.ratio) * c.max_rel > cap && c.chunk > 1 {
            c.chunk = (c.chunk / 2).max(1);
        }
    }
    if kind.is_sinc() {
        c.sinc_len = match rng.ui(0, 5) {
            0 => 8 * rng.ui(1, (p.max_sinc_len / 8).max(1)),
            1 => rng.ui(8, p.max_sinc_len.max(8)), // not a multiple of 8: rounded up by the code
            2 => *rng.pick(&[8usize, 16, 64, 128, 256]),
            _ => 8 * rng.logi(1, (p.max_sinc_len / 8).max(1)),
        }
        .min(p.max_sinc_len)
        .max(8);
        if rng.chance(0.06) {
            // a request that is not a multiple of 8: documented to be rounded up (flen() is the rounded length)
            c.sinc_len -= rng.ui(1, 7);
        }
        if p.max_sinc_len >= 512 && rng.chance(0.03) {
            // long filters (calculate_cutoff is specified up to 2048)
            c.sinc_len = 8 * rng.ui(65, 256);
            c.chunk = c.chunk.min(512);
        }
        c.window = *rng.pick(&ALL_WIN);
        c.interp = *rng.pick(&ALL_INTERP);
        c.oversampling = match rng.ui(0, 4) {
            0 => *rng.pick(&[1usize, 2, 3, 4, 8, 16, 128, 160, 256, 2048]),
            1 => rng.ui(1, 9),
            _ => rng.logi(1, p.max_oversampling),
        }
        .min(p.max_oversampling)
        .max(1);
        if !p.allow_n1_poly
            && matches!(c.interp, Interp::Cubic | Interp::Quadratic)
            && c.oversampling < 2
        {
            c.oversampling = 2;
        }
        if rng.chance(0.06) && c.ratio * c.max_rel > 2.5 {
            // fewer intermediate points than output frames per input frame: consecutive output frames share
            // their nearest points (a structural corner of the interpolation loops)
            let top = (c.ratio * c.max_rel).min(64.0);
            c.oversampling = (rng.uf(0.3, 1.0) * top).floor().max(2.0) as usize;
        }
        // table size bound (memory / construction time)
        while c.flen() * c.oversampling > 300_000 {
            c.oversampling = (c.oversampling / 2).max(2);
        }
        c.f_cutoff = match rng.ui(0, 3) {
            0 => c.window.cutoff(c.flen()) as f32,
            1 => 0.95,
            _ => rng.uf(0.5, 1.0) as f32,
        };
        // 12 %: an explicitly chosen kernel through new_with_interpolator (what a CPU without AVX / SSE3 runs)
        if rng.chance(0.12) {
            c.kernel = *rng.pick(&[Kernel::Scalar, Kernel::Scalar, Kernel::Sse, Kernel::Avx]);
        }
    }
    if kind.is_fast() {
        c.degree = *rng.pick(&ALL_DEG);
    }
    if kind.is_fft() {
        loop {
            let (a, b) = gen_rate_pair(rng);
            c.fs_in = a;
            c.fs_out = b;
            c.sub_chunks = match rng.ui(0, 3) {
                0 => 1,
                1 => 2,
                _ => rng.ui(1, 8),
            };
            let (fi, fo) = c.fft_sizes();
            if fi >= 1 && fo >= 1 && fi <= p.max_fft_block && fo <= p.max_fft_block {
                break;
            }
            if rng.chance(0.3) {
                c.chunk = gen_chunk(rng, p.max_chunk.min(p.max_fft_block));
            }
        }
    }
    // 8 % of all configurations (every type, every monitor): calls and getters go through the object-safe
    // VecResampler wrapper instead of the Resampler trait
    c.via_dyn = rng.chance(0.08);
    c
}
