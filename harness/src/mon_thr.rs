//! `thr` (C18): resamplers are self-contained and deterministic across instances and threads.
//!
//! A case = W work items (configuration, history, signal seed, sample type).  A single-threaded
//! reference execution records one hash per call (all output bits + counts + getters).  Then
//! T threads construct the same instances concurrently and drive them from a shared pool: a
//! thread takes any available instance, executes its next 1..4 calls and puts it back, so
//! instances migrate between threads at call boundaries, with random yields/spins in between.
//! Every per-call hash must equal the reference.  The same workload runs under ThreadSanitizer
//! and (tiny) under Miri, where a data race aborts the worker.

use crate::cfg::*;
use crate::json::J;
use crate::mon::*;
use crate::rng::{mix, Rng};
use crate::run::*;
use crate::sig::{Sig, SigKind};
use std::collections::HashSet;
use std::sync::atomic::{AtomicU64, AtomicUsize, Ordering::SeqCst};
use std::sync::{Arc, Mutex};

pub struct Threads;

#[derive(Clone)]
pub struct Item {
    cfg: Cfg,
    ops: Vec<Op>,
    sig_seed: u64,
    f32_: bool,
    /// Some(scale): the signal lives in the subnormal range of the sample type, where the result of every
    /// multiply-add depends on the thread's floating-point control word
    faint: Option<f64>,
    /// malformed calls (rejected with Err) issued before the op of the same index
    bads: Vec<Vec<BadCall>>,
}

impl Item {
    fn sig(&self) -> Sig {
        match self.faint {
            Some(s) => Sig { seed: self.sig_seed, kind: SigKind::Faint(s) },
            None => Sig::noise(self.sig_seed),
        }
    }
    fn bads_at(&self, j: usize) -> &[BadCall] {
        self.bads.get(j).map(|v| &v[..]).unwrap_or(&[])
    }
}

/// control bits of the SSE control/status word of the calling thread (rounding mode, flush-to-zero,
/// denormals-are-zero, exception masks); the sticky status flags are masked out
#[cfg(all(target_arch = "x86_64", not(miri)))]
fn fp_control() -> u32 {
    let mut v: u32 = 0;
    unsafe {
        std::arch::asm!("stmxcsr [{}]", in(reg) &mut v, options(nostack));
    }
    v & 0xFFC0
}
#[cfg(not(all(target_arch = "x86_64", not(miri))))]
fn fp_control() -> u32 {
    0
}
#[cfg(all(target_arch = "x86_64", not(miri)))]
fn set_fp_control(c: u32) {
    let mut v: u32 = 0;
    unsafe {
        std::arch::asm!("stmxcsr [{}]", in(reg) &mut v, options(nostack));
        v = (v & !0xFFC0) | c;
        std::arch::asm!("ldmxcsr [{}]", in(reg) &v, options(nostack));
    }
}
#[cfg(not(all(target_arch = "x86_64", not(miri))))]
fn set_fp_control(_c: u32) {}

static FP_LEAKS: Mutex<Vec<String>> = Mutex::new(Vec::new());

enum AnyRunner {
    F32(Runner<f32>),
    F64(Runner<f64>),
}

fn hash_step<T: Smp>(so: &StepOut<T>) -> u64 {
    let mut h = 0x1234_5678_9abc_def0u64;
    let mut feed = |x: u64| {
        h = mix(&[h, x]);
    };
    match &so.res {
        Ok((i, o)) => {
            feed(1);
            feed(*i as u64);
            feed(*o as u64);
        }
        Err(e) => {
            feed(2);
            feed(crate::mon::hash_str(e));
        }
    }
    for g in [so.before, so.after] {
        feed(g.in_next as u64);
        feed(g.in_max as u64);
        feed(g.out_next as u64);
        feed(g.out_max as u64);
        feed(g.delay as u64);
    }
    for ch in &so.out {
        feed(ch.len() as u64);
        let mut acc = 0u64;
        for (j, v) in ch.iter().enumerate() {
            acc = acc.rotate_left(7) ^ v.bits().wrapping_mul(0x9E37_79B9_7F4A_7C15).wrapping_add(j as u64);
        }
        feed(acc);
    }
    h
}

impl AnyRunner {
    fn build(it: &Item) -> Result<Self, String> {
        Ok(if it.f32_ {
            let mut r = Runner::<f32>::fresh(&it.cfg, it.sig())?;
            r.check_alloc = false;
            AnyRunner::F32(r)
        } else {
            let mut r = Runner::<f64>::fresh(&it.cfg, it.sig())?;
            r.check_alloc = false;
            AnyRunner::F64(r)
        })
    }
    /// the malformed calls scheduled before this op, then the op; the thread's floating-point control
    /// word must be the same before and after (a library call that leaves it changed makes every later
    /// result on that thread depend on this instance's history)
    fn step(&mut self, op: &Op, bads: &[BadCall]) -> u64 {
        let c0 = fp_control();
        let mut h = 0u64;
        for bc in bads {
            let (applicable, v) = match self {
                AnyRunner::F32(r) => do_bad_call(r, bc),
                AnyRunner::F64(r) => do_bad_call(r, bc),
            };
            h = mix(&[h, applicable as u64, v.len() as u64]);
            let c = fp_control();
            if c != c0 {
                let mut l = FP_LEAKS.lock().unwrap();
                if l.len() < 4 {
                    l.push(format!("after the rejected call {}: MXCSR control bits {:#06x} -> {:#06x}", bc.json().dump(), c0, c));
                }
            }
        }
        let hs = match self {
            AnyRunner::F32(r) => hash_step(&r.step(op)),
            AnyRunner::F64(r) => hash_step(&r.step(op)),
        };
        let c = fp_control();
        if c != c0 {
            let mut l = FP_LEAKS.lock().unwrap();
            if l.len() < 4 {
                l.push(format!("after {}: MXCSR control bits {:#06x} -> {:#06x}", op.json().dump(), c0, c));
            }
        }
        if bads.is_empty() {
            hs
        } else {
            mix(&[h, hs])
        }
    }
}

struct Slot {
    runner: Option<AnyRunner>,
    next_op: usize,
    hashes: Vec<u64>,
    threads: Vec<usize>,
}


/// Work items of a cold-start case: small sinc / FFT / polynomial configurations whose construction goes
/// through everything that is initialised lazily and process-wide (CPU-feature detection, FFT planners).
/// A pure function of the seed: the parent and the freshly started child derive the same list.
pub fn cold_items(seed: u64) -> Vec<Item> {
    let mut rng = Rng::derive(&[seed, 0xC01D]);
    let no_fft = std::env::var("RVMON_NO_FFT").is_ok();
    (0..16)
        .map(|k| {
            let mut c = Cfg::default();
            // three quarters sinc types (the users of the CPU-feature detection)
            c.kind = if k % 4 == 3 && !no_fft { *rng.pick(&ALL_KINDS[..]) } else { *rng.pick(&[Kind::SincIn, Kind::SincOut]) };
            c.channels = rng.ui(1, 2);
            c.chunk = rng.ui(16, 96);
            c.ratio = rng.logf(0.5, 2.0);
            c.max_rel = 1.0;
            c.sinc_len = 8 * rng.ui(1, 8);
            c.oversampling = rng.ui(2, 33);
            c.interp = *rng.pick(&ALL_INTERP);
            c.window = *rng.pick(&ALL_WIN);
            c.f_cutoff = rng.uf(0.6, 0.95) as f32;
            c.degree = *rng.pick(&ALL_DEG);
            c.fs_in = rng.ui(2, 48);
            c.fs_out = rng.ui(2, 48);
            c.sub_chunks = 1;
            let ops = vec![Op::Proc { path: Path::Exact, slack_in: 0, slack_out: 0, mask: None, empty_inactive: false }; 3];
            Item { cfg: c, ops, sig_seed: rng.next(), f32_: rng.bool(), faint: None, bads: Vec::new() }
        })
        .collect()
}

fn run_item(it: &Item) -> Option<u64> {
    let mut r = AnyRunner::build(it).ok()?;
    let mut h = 0u64;
    for op in &it.ops {
        h = mix(&[h, r.step(op, &[])]);
    }
    Some(h)
}

/// Entry point of the child process of a cold-start case (`rvmon cold-child <seed> <threads>`): nothing has
/// touched the library yet; all threads are released together by a spin barrier and construct + drive
/// their instances; one line `C <item> <hash|none>` per item on stdout.
pub fn cold_child(args: &[String]) {
    let seed: u64 = args.first().and_then(|v| v.parse().ok()).unwrap_or(0);
    let n_threads: usize = args.get(1).and_then(|v| v.parse().ok()).unwrap_or(8).max(1);
    let items = Arc::new(cold_items(seed));
    let gate = Arc::new(AtomicUsize::new(0));
    let mut handles = Vec::new();
    for t in 0..n_threads {
        let (items, gate) = (items.clone(), gate.clone());
        handles.push(std::thread::spawn(move || {
            gate.fetch_add(1, SeqCst);
            while gate.load(SeqCst) < n_threads {
                std::hint::spin_loop();
            }
            let mut res = Vec::new();
            for (k, it) in items.iter().enumerate() {
                if k % n_threads == t {
                    res.push((k, run_item(it)));
                }
            }
            res
        }));
    }
    let mut out = String::new();
    for h in handles {
        match h.join() {
            Ok(res) => {
                for (k, v) in res {
                    out.push_str(&match v {
                        Some(x) => format!("C {} {}\n", k, x),
                        None => format!("C {} none\n", k),
                    });
                }
            }
            Err(_) => {
                eprintln!("cold child: a thread panicked");
                std::process::exit(101);
            }
        }
    }
    print!("{}", out);
}

impl Threads {
    /// Cold start: the reference is computed in this (warm) process; then fresh child processes are started
    /// in which 8 or 16 threads, released together, construct and drive the same instances as the very
    /// first thing the process does - the window in which lazily initialised process-wide state (CPU-feature
    /// detection, planner caches) is being set up by one thread while the others already read it.
    fn cold(&self, ctx: &Ctx, idx: u64, st: &mut Stats) -> CaseResult {
        let mut rng = ctx.rng_for(idx);
        let seed = ctx.sub_seed(idx, 0xC01D);
        let n_children = rng.ui(2, 4);
        let items = cold_items(seed);
        let desc = J::obj().with("mode", J::s("cold start")).with("child_processes", J::u(n_children)).with("items_seed", J::Int(seed as i128)).with(
            "first_configurations",
            J::Arr(items.iter().take(3).map(|it| J::obj().with("sample", J::s(if it.f32_ { "f32" } else { "f64" })).with("cfg", it.cfg.json())).collect()),
        );
        set_desc(&desc);
        let mut cr = CaseResult { desc, ..Default::default() };
        if ctx.describe {
            return cr;
        }
        let reference: Vec<Option<u64>> = items.iter().map(run_item).collect();
        let exe = match std::env::current_exe() {
            Ok(e) => e,
            Err(e) => {
                cr.inconclusive = Some(format!("current_exe: {}", e));
                return cr;
            }
        };
        let mut instances = 0u64;
        for c in 0..n_children {
            let n_threads = *rng.pick(&[8usize, 16]);
            let out = match std::process::Command::new(&exe).arg("cold-child").arg(seed.to_string()).arg(n_threads.to_string()).output() {
                Ok(o) => o,
                Err(e) => {
                    cr.inconclusive = Some(format!("could not start the child process: {}", e));
                    return cr;
                }
            };
            if !out.status.success() {
                let err = String::from_utf8_lossy(&out.stderr);
                let tail: String = err.lines().rev().take(6).collect::<Vec<_>>().into_iter().rev().collect::<Vec<_>>().join(" | ");
                cr.viols.push(Viol::new("C18", "cold_start_child_failed", format!("child {} ({} threads constructing at process start) ended with {:?}: {}", c, n_threads, out.status.code(), tail)));
                break;
            }
            let text = String::from_utf8_lossy(&out.stdout);
            let mut seen = 0;
            for l in text.lines() {
                let mut w = l.split_whitespace();
                if w.next() != Some("C") {
                    continue;
                }
                let k: usize = w.next().and_then(|v| v.parse().ok()).unwrap_or(usize::MAX);
                let h: Option<u64> = w.next().and_then(|v| v.parse().ok());
                if k >= items.len() {
                    continue;
                }
                seen += 1;
                instances += 1;
                if h != reference[k] && cr.viols.len() < 4 {
                    cr.viols.push(Viol::new(
                        "C18",
                        "cold_start_differs_from_reference",
                        format!("child {} ({} threads released together at process start): item {} ({} {}) differs from the reference computed in a warm process", c, n_threads, k, items[k].cfg.kind.name(), items[k].cfg.json().dump()),
                    ));
                }
            }
            if seen != items.len() {
                cr.inconclusive = Some(format!("child {} reported {} of {} items", c, seen, items.len()));
                return cr;
            }
        }
        st.add("cold_start_cases", 1.0);
        st.add("cold_start_processes", n_children as f64);
        st.add("instances_constructed_at_process_start", instances as f64);
        cr.class = Some(format!("cold|{}|{}", n_children, idx));
        cr
    }

    /// Construction storm: many threads construct small, differently configured instances at the same
    /// time (each configuration twice back to back, so that process-wide caches see hits while other
    /// threads insert), run one call on each and compare with a single-threaded reference.  Aims at
    /// construction-time shared state: filter/window/plan caches, CPU-feature detection, planners.
    fn storm(&self, ctx: &Ctx, idx: u64, st: &mut Stats) -> CaseResult {
        let mut rng = ctx.rng_for(idx);
        let tiny = ctx.profile == "tiny";
        let n_cfg = if tiny { 6 } else { rng.ui(40, 120) };
        let n_threads = if tiny { 2 } else { *rng.pick(&[4usize, 8, 16]) };
        let rounds = if tiny { 3 } else { rng.ui(20, 80) };
        let no_fft = std::env::var("RVMON_NO_FFT").is_ok();
        let mut items: Vec<Item> = Vec::with_capacity(n_cfg);
        for k in 0..n_cfg {
            let mut c = Cfg::default();
            c.kind = *rng.pick(if no_fft { &ASYNC_KINDS[..] } else { &ALL_KINDS[..] });
            c.channels = 1;
            c.chunk = rng.ui(4, 24);
            c.ratio = rng.logf(0.5, 2.0);
            c.max_rel = 1.0;
            c.sinc_len = 8 * rng.ui(1, 8);
            c.oversampling = rng.ui(2, 9);
            c.interp = *rng.pick(&ALL_INTERP);
            c.window = *rng.pick(&ALL_WIN);
            c.f_cutoff = rng.uf(0.6, 0.95) as f32;
            c.degree = *rng.pick(&ALL_DEG);
            c.fs_in = rng.ui(2, 24 + k);
            c.fs_out = rng.ui(2, 24 + k);
            c.sub_chunks = 1;
            let ops = vec![Op::Proc { path: Path::Exact, slack_in: 0, slack_out: 0, mask: None, empty_inactive: false }; 2];
            items.push(Item { cfg: c, ops, sig_seed: rng.next(), f32_: rng.bool(), faint: None, bads: Vec::new() });
        }
        let desc = J::obj().with("mode", J::s("construction storm")).with("threads", J::u(n_threads)).with("configurations", J::u(n_cfg)).with("rounds_per_thread", J::u(rounds)).with(
            "first_configurations",
            J::Arr(items.iter().take(3).map(|it| J::obj().with("sample", J::s(if it.f32_ { "f32" } else { "f64" })).with("cfg", it.cfg.json())).collect()),
        );
        set_desc(&desc);
        let mut cr = CaseResult { desc, ..Default::default() };
        if ctx.describe {
            return cr;
        }
        let run_one = |it: &Item| -> Option<u64> {
            let mut r = AnyRunner::build(it).ok()?;
            let mut h = 0u64;
            for op in &it.ops {
                h = mix(&[h, r.step(op, &[])]);
            }
            Some(h)
        };
        let reference: Vec<Option<u64>> = items.iter().map(|it| run_one(it)).collect();
        let items = Arc::new(items);
        let reference = Arc::new(reference);
        let bad: Arc<Mutex<Vec<String>>> = Arc::new(Mutex::new(Vec::new()));
        let built = Arc::new(AtomicU64::new(0));
        let seed = ctx.sub_seed(idx, 99);
        let mut handles = Vec::new();
        for t in 0..n_threads {
            let (items, reference, bad, built) = (items.clone(), reference.clone(), bad.clone(), built.clone());
            handles.push(std::thread::spawn(move || {
                let mut rng = Rng::derive(&[seed, t as u64]);
                for r in 0..rounds {
                    let k = rng.ui(0, items.len() - 1);
                    for rep in 0..2 {
                        let got = {
                            let it = &items[k];
                            let mut h = None;
                            if let Ok(mut run) = AnyRunner::build(it) {
                                let mut x = 0u64;
                                for op in &it.ops {
                                    x = mix(&[x, run.step(op, &[])]);
                                }
                                h = Some(x);
                            }
                            h
                        };
                        built.fetch_add(1, SeqCst);
                        if got != reference[k] {
                            let mut b = bad.lock().unwrap();
                            if b.len() < 4 {
                                b.push(format!("thread {} round {} (build {} of the pair): configuration {} ({} {}) differs from its single-threaded reference", t, r, rep, k, items[k].cfg.kind.name(), items[k].cfg.json().dump()));
                            }
                        }
                    }
                }
            }));
        }
        let mut panicked = false;
        for h in handles {
            if h.join().is_err() {
                panicked = true;
            }
        }
        if panicked {
            cr.viols.push(Viol::new("C18", "panic_under_concurrent_construction", "a thread panicked while constructing / driving its own instance concurrently with other threads (single-threaded reference run of the same configurations was fine)".into()));
        }
        for b in bad.lock().unwrap().iter() {
            cr.viols.push(Viol::new("C18", "construction_differs_from_single_threaded_reference", b.clone()));
        }
        st.add("storm_cases", 1.0);
        st.add("instances_constructed_concurrently", built.load(SeqCst) as f64);
        st.add("storm_configurations", n_cfg as f64);
        cr.class = Some(format!("storm|{}|{}|{}", n_threads, n_cfg, idx));
        cr
    }
}

impl Monitor for Threads {
    fn name(&self) -> &'static str {
        "thr"
    }
    fn budget(&self, ctx: &Ctx) -> u64 {
        match (ctx.tier, ctx.profile.as_str()) {
            (Tier::Quick, "tiny") => 8,
            (Tier::Thorough, "tiny") => 64,
            (Tier::Quick, _) => 64,
            (Tier::Thorough, _) => 2_000,
        }
    }
    fn case(&self, ctx: &Ctx, idx: u64, st: &mut Stats) -> CaseResult {
        if idx % 8 == 5 && !cfg!(miri) {
            return self.cold(ctx, idx, st);
        }
        if idx % 4 == 3 {
            return self.storm(ctx, idx, st);
        }
        let mut rng = ctx.rng_for(idx);
        let tiny = ctx.profile == "tiny";
        let mut gp = if tiny { GenProfile::tiny() } else { GenProfile::small() };
        if std::env::var("RVMON_NO_FFT").is_ok() {
            gp.kinds = ASYNC_KINDS.to_vec();
        }
        let n_items = if tiny { rng.ui(2, 4) } else { rng.ui(4, 24) };
        let n_threads = if tiny { rng.ui(2, 3) } else { *rng.pick(&[2usize, 4, 8, 16]) };
        let items: Vec<Item> = (0..n_items)
            .map(|_| {
                let cfg = gen_cfg(&mut rng, &gp);
                let mut hp = HistProfile::full(if tiny { 5 } else { 16 });
                hp.allow_reset = true;
                let ops = gen_history(&mut rng, &cfg, &hp);
                let f32_ = rng.bool();
                // a third of the items carry a signal in the subnormal range; a third are sent malformed calls
                let faint = if rng.chance(0.35) { Some(if f32_ { 10f64.powf(-rng.uf(36.0, 41.0)) } else { 10f64.powf(-rng.uf(306.0, 318.0)) }) } else { None };
                let mut bads: Vec<Vec<BadCall>> = vec![Vec::new(); ops.len()];
                if rng.chance(0.35) && !ops.is_empty() {
                    for _ in 0..rng.ui(1, 3) {
                        let j = rng.ui(0, ops.len() - 1);
                        bads[j].push(gen_bad(&mut rng, cfg.channels));
                    }
                }
                Item { cfg, ops, sig_seed: rng.next(), f32_, faint, bads }
            })
            .collect();
        // siblings: instances that differ from an existing one in a single filter-relevant parameter
        // (cutoff, down-sampling ratio, FFT output rate) and are alive at the same time - the pattern
        // that exposes state shared between instances under an incomplete key
        let mut items = items;
        if rng.chance(0.6) {
            let n0 = items.len();
            for k in 0..n0.min(4) {
                let mut sib = items[k].clone();
                let c = &mut sib.cfg;
                match c.kind {
                    Kind::SincIn | Kind::SincOut => {
                        if c.ratio < 1.0 && rng.bool() {
                            c.ratio *= 0.7;
                        } else {
                            c.f_cutoff *= 0.8;
                        }
                    }
                    Kind::FastIn | Kind::FastOut => c.ratio *= 1.3,
                    _ if rng.chance(0.4) => {
                        // the mirror image: same pair of rates, opposite direction
                        std::mem::swap(&mut c.fs_in, &mut c.fs_out);
                    }
                    _ => {
                        // same input block, different output rate (both coprime to a prime input rate)
                        let p_in = *rng.pick(&[7usize, 11, 13, 31, 101, 127]);
                        c.fs_in = p_in;
                        items[k].cfg.fs_in = p_in;
                        let a = rng.ui(1, 3 * p_in);
                        let b = rng.ui(1, 3 * p_in);
                        items[k].cfg.fs_out = if a % p_in == 0 { a + 1 } else { a };
                        c.fs_out = if b % p_in == 0 { b + 1 } else { b };
                        if c.fs_out == items[k].cfg.fs_out {
                            c.fs_out += 1;
                            if c.fs_out % p_in == 0 {
                                c.fs_out += 1;
                            }
                        }
                    }
                }
                sib.sig_seed = rng.next();
                items.insert(k + 1 + (items.len() - n0), sib);
            }
        }
        let desc = J::obj().with("threads", J::u(n_threads)).with(
            "work_items",
            J::Arr(items.iter().map(|it| J::obj().with("sample", J::s(if it.f32_ { "f32" } else { "f64" })).with("cfg", it.cfg.json()).with("signal_seed", J::Int(it.sig_seed as i128)).with("signal_scale", it.faint.map(J::f).unwrap_or(J::Null)).with("ops", ops_json(&it.ops)).with("malformed_calls_before_op", J::Arr(it.bads.iter().enumerate().filter(|(_, b)| !b.is_empty()).map(|(j, b)| J::obj().with("op_index", J::u(j)).with("calls", J::Arr(b.iter().map(|x| x.json()).collect()))).collect()))).collect()),
        );
        set_desc(&desc);
        let mut cr = CaseResult { desc, ..Default::default() };
        if ctx.describe {
            return cr;
        }
        FP_LEAKS.lock().unwrap().clear();
        let fp0 = fp_control();
        // (a) single-threaded reference
        let mut reference: Vec<Vec<u64>> = Vec::new();
        for it in &items {
            let mut r = match AnyRunner::build(it) {
                Ok(r) => r,
                Err(e) => {
                    cr.inconclusive = Some(e);
                    return cr;
                }
            };
            reference.push(it.ops.iter().enumerate().map(|(j, op)| r.step(op, it.bads_at(j))).collect());
        }
        // (a') a second single-threaded execution must already agree (determinism on one thread)
        for (k, it) in items.iter().enumerate() {
            let mut r = AnyRunner::build(it).unwrap();
            for (j, op) in it.ops.iter().enumerate() {
                if r.step(op, it.bads_at(j)) != reference[k][j] {
                    cr.viols.push(Viol::new("C18", "nondeterministic_single_thread", format!("work item {} call {}: two executions on the same thread differ", k, j)));
                    return cr;
                }
            }
        }
        // (b) concurrent execution with migration
        let items = Arc::new(items);
        let slots: Arc<Vec<Mutex<Slot>>> = Arc::new((0..items.len()).map(|_| Mutex::new(Slot { runner: None, next_op: 0, hashes: Vec::new(), threads: Vec::new() })).collect());
        let remaining = Arc::new(AtomicUsize::new(items.len()));
        let in_flight = Arc::new(AtomicUsize::new(0));
        let overlapped = Arc::new(AtomicU64::new(0));
        let total_calls = Arc::new(AtomicU64::new(0));
        let seed = ctx.sub_seed(idx, 77);
        let mut handles = Vec::new();
        for t in 0..n_threads {
            let items = items.clone();
            let slots = slots.clone();
            let remaining = remaining.clone();
            let in_flight = in_flight.clone();
            let overlapped = overlapped.clone();
            let total_calls = total_calls.clone();
            handles.push(std::thread::spawn(move || {
                let mut rng = Rng::derive(&[seed, t as u64]);
                let n = items.len();
                let mut spins = 0u64;
                while remaining.load(SeqCst) > 0 {
                    let k = rng.ui(0, n - 1);
                    let Ok(mut slot) = slots[k].try_lock() else {
                        std::thread::yield_now();
                        continue;
                    };
                    if slot.next_op == usize::MAX || (slot.next_op >= items[k].ops.len() && slot.runner.is_some()) {
                        continue;
                    }
                    if slot.runner.is_none() {
                        // construct concurrently with whatever the other threads are doing
                        match AnyRunner::build(&items[k]) {
                            Ok(r) => slot.runner = Some(r),
                            Err(_) => {
                                slot.next_op = usize::MAX;
                                remaining.fetch_sub(1, SeqCst);
                                continue;
                            }
                        }
                    }
                    let burst = rng.ui(1, 4);
                    for _ in 0..burst {
                        let j = slot.next_op;
                        if j >= items[k].ops.len() {
                            break;
                        }
                        let others = in_flight.fetch_add(1, SeqCst);
                        let h = slot.runner.as_mut().unwrap().step(&items[k].ops[j], items[k].bads_at(j));
                        let others_after = in_flight.fetch_sub(1, SeqCst) - 1;
                        if others > 0 || others_after > 0 {
                            overlapped.fetch_add(1, SeqCst);
                        }
                        total_calls.fetch_add(1, SeqCst);
                        slot.hashes.push(h);
                        slot.threads.push(t);
                        slot.next_op += 1;
                        if slot.next_op == items[k].ops.len() {
                            remaining.fetch_sub(1, SeqCst);
                        }
                        // random yields / short spins between calls
                        match rng.ui(0, 3) {
                            0 => std::thread::yield_now(),
                            1 => {
                                for _ in 0..rng.ui(1, 200) {
                                    spins = spins.wrapping_add(1);
                                    std::hint::spin_loop();
                                }
                            }
                            _ => {}
                        }
                    }
                    drop(slot);
                }
                spins
            }));
        }
        for h in handles {
            if h.join().is_err() {
                cr.inconclusive = Some(format!("a worker thread panicked: {:?}", take_panic()));
                return cr;
            }
        }
        let mut migrations = 0u64;
        let mut pairs: HashSet<(usize, usize)> = HashSet::new();
        let mut seqs: HashSet<String> = HashSet::new();
        for (k, s) in slots.iter().enumerate() {
            let s = s.lock().unwrap();
            if s.hashes.len() != reference[k].len() {
                cr.viols.push(Viol::new("C18", "calls_lost", format!("work item {}: {} calls executed concurrently, {} in the reference", k, s.hashes.len(), reference[k].len())));
                continue;
            }
            for (j, (a, b)) in s.hashes.iter().zip(reference[k].iter()).enumerate() {
                if a != b {
                    cr.viols.push(Viol::new(
                        "C18",
                        "differs_from_single_threaded_reference",
                        format!("work item {} ({}), call {} ({}), executed on thread {}: outputs/counts/getters hash differs from the single-threaded reference", k, items[k].cfg.kind.name(), j, items[k].ops[j].json().dump(), s.threads[j]),
                    ));
                    break;
                }
            }
            for w in s.threads.windows(2) {
                if w[0] != w[1] {
                    migrations += 1;
                }
            }
            for t in &s.threads {
                pairs.insert((k, *t));
            }
            seqs.insert(format!("{}:{:?}", k, s.threads));
        }
        for l in FP_LEAKS.lock().unwrap().drain(..) {
            cr.viols.push(Viol::new("C18", "thread_fp_control_changed", format!("a call into the library changed the calling thread's floating-point control word: {}", l)));
        }
        set_fp_control(fp0);
        st.add("malformed_calls_scheduled", items.iter().map(|it| it.bads.iter().map(|b| b.len()).sum::<usize>()).sum::<usize>() as f64);
        st.add("work_items_with_subnormal_signal", items.iter().filter(|it| it.faint.is_some()).count() as f64);
        st.add("calls_bracketed_by_fp_control_reads", if cfg!(all(target_arch = "x86_64", not(miri))) { total_calls.load(SeqCst) as f64 } else { 0.0 });
        let tc = total_calls.load(SeqCst);
        st.add("calls_executed_concurrently", tc as f64);
        st.add("calls_overlapping_another_threads_call", overlapped.load(SeqCst) as f64);
        st.add("migrations_between_threads", migrations as f64);
        st.add("distinct_instance_thread_pairs", pairs.len() as f64);
        st.add("work_items", items.len() as f64);
        st.add(&format!("cases_with_{}_threads", n_threads), 1.0);
        for s in &seqs {
            st.distinct("distinct_per_instance_thread_sequences", &format!("{}:{}", idx, s));
        }
        cr.class = Some(format!("{}|{}|{}", n_threads, items.len(), idx));
        cr
    }
}
