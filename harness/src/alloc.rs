//! Counting global allocator (M-ALLOC).  While the calling thread is *armed*, every
//! alloc / dealloc / realloc / alloc_zeroed on that thread increments a thread-local counter
//! and remembers the first event (kind, size).  Const-initialised thread-locals: the monitor
//! itself never allocates.

use std::alloc::{GlobalAlloc, Layout, System};
use std::cell::Cell;

pub struct Counting;

thread_local! {
    static ARMED: Cell<bool> = const { Cell::new(false) };
    static EVENTS: Cell<u64> = const { Cell::new(0) };
    static FIRST_KIND: Cell<u8> = const { Cell::new(0) };
    static FIRST_SIZE: Cell<usize> = const { Cell::new(0) };
    static TOTAL: Cell<u64> = const { Cell::new(0) };
}

#[inline]
fn note(kind: u8, size: usize) {
    // try_with: thread-local may be gone during thread teardown
    let _ = ARMED.try_with(|a| {
        if a.get() {
            let _ = EVENTS.try_with(|e| {
                if e.get() == 0 {
                    let _ = FIRST_KIND.try_with(|k| k.set(kind));
                    let _ = FIRST_SIZE.try_with(|s| s.set(size));
                }
                e.set(e.get() + 1);
            });
        }
    });
    let _ = TOTAL.try_with(|t| t.set(t.get() + 1));
}

unsafe impl GlobalAlloc for Counting {
    unsafe fn alloc(&self, l: Layout) -> *mut u8 {
        note(1, l.size());
        System.alloc(l)
    }
    unsafe fn dealloc(&self, p: *mut u8, l: Layout) {
        note(2, l.size());
        System.dealloc(p, l)
    }
    unsafe fn alloc_zeroed(&self, l: Layout) -> *mut u8 {
        note(3, l.size());
        System.alloc_zeroed(l)
    }
    unsafe fn realloc(&self, p: *mut u8, l: Layout, n: usize) -> *mut u8 {
        note(4, n);
        System.realloc(p, l, n)
    }
}

#[derive(Clone, Copy, Debug, Default, PartialEq, Eq)]
pub struct AllocReport {
    pub events: u64,
    pub first_kind: u8,
    pub first_size: usize,
}

impl AllocReport {
    pub fn kind_name(&self) -> &'static str {
        match self.first_kind {
            1 => "alloc",
            2 => "dealloc",
            3 => "alloc_zeroed",
            4 => "realloc",
            _ => "none",
        }
    }
}

/// Arm counting on this thread (resets the counter).
#[inline]
pub fn arm() {
    EVENTS.with(|e| e.set(0));
    FIRST_KIND.with(|k| k.set(0));
    FIRST_SIZE.with(|k| k.set(0));
    ARMED.with(|a| a.set(true));
}

/// Disarm and return what was seen since `arm`.
#[inline]
pub fn disarm() -> AllocReport {
    ARMED.with(|a| a.set(false));
    AllocReport {
        events: EVENTS.with(|e| e.get()),
        first_kind: FIRST_KIND.with(|k| k.get()),
        first_size: FIRST_SIZE.with(|k| k.get()),
    }
}

/// Total allocator events seen on this thread since start (sanity: the hook is live).
pub fn total_events() -> u64 {
    TOTAL.with(|t| t.get())
}
