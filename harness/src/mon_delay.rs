//! `delay` (C14): output_delay() is the true alignment delay of the output stream.
//!
//! A smooth positive pulse (Gaussian, sigma >= 4/min(1,ratio) input frames) centred at input
//! frame n0 must appear in the output centred at n0*ratio + output_delay() within
//! max(1, ratio) + 1 output frames (first moment of the output stream), and the README recipe
//! (skip output_delay() frames, keep len*ratio frames) must return the whole pulse.

use crate::cfg::*;
use crate::json::J;
use crate::mon::*;
use crate::mon_hist::profile_by_name;
use crate::rng::Rng;
use crate::run::*;
use crate::sig::{Sig, SigKind};

pub struct Delay;

impl Delay {
    fn case_t<T: Smp>(&self, ctx: &Ctx, idx: u64, st: &mut Stats) -> CaseResult {
        let mut rng = ctx.rng_for(idx);
        let mut gp = profile_by_name(&ctx.profile);
        gp.max_channels = 1;
        gp.max_fft_block = 4096;
        let mut cfg = gen_cfg(&mut rng, &gp);
        cfg.channels = 1;
        if cfg.kind.is_sinc() {
            // the pulse must pass the anti-aliasing filter unharmed: keep a sane cutoff
            cfg.f_cutoff = cfg.f_cutoff.max(0.7);
            if matches!(cfg.interp, Interp::Nearest | Interp::Linear) {
                cfg.oversampling = cfg.oversampling.max(8);
            }
        }
        let pre_ratio = if cfg.kind.is_async() && cfg.max_rel > 1.0 && rng.chance(0.3) { Some(gen_in_range_ratio(&mut rng, &cfg)) } else { None };
        let r = pre_ratio.unwrap_or(cfg.r());
        // the anti-aliasing table is built for the construction ratio and is not rebuilt by the ratio
        // setters: the pulse must be smooth with respect to both
        let sigma = (4.0 / r.min(1.0).min(if cfg.kind.is_sinc() { cfg.ratio } else { 1.0 })) * rng.uf(1.0, 3.0);
        let flen = if cfg.kind.is_fft() { cfg.fft_sizes().0 } else { cfg.flen() };
        let n0 = (6.0 * sigma + flen as f64 + 8.0 + rng.uf(0.0, 3000.0)).round();
        let clip_len = (n0 + 6.0 * sigma + 8.0).ceil() as usize; // the "clip" of the README recipe
        let tail = flen + (2.0 / r) as usize + 64 + 2 * cfg.chunk; // zeros pushed after the clip
        let mut table = vec![0.0; clip_len];
        for (n, v) in table.iter_mut().enumerate() {
            let u = (n as f64 - n0) / sigma;
            if u.abs() < 6.0 {
                *v = (-0.5 * u * u).exp();
            }
        }
        let boxed = rng.chance(0.12);
        // 12 %: the instance had an earlier life - another in-range ratio, a few chunks - and was reset()
        // before the clip; 15 % of the sinc cases change the chunk size between calls while the clip streams
        let reuse: Option<(Option<f64>, usize)> = if !boxed && rng.chance(0.12) {
            Some((if cfg.kind.is_async() && cfg.max_rel > 1.0 && rng.chance(0.7) { Some(gen_in_range_ratio(&mut rng, &cfg)) } else { None }, rng.ui(1, 6)))
        } else {
            None
        };
        let resize: Option<u64> = if !boxed && cfg.kind.is_sinc() && rng.chance(0.15) { Some(rng.next()) } else { None };
        let desc = J::obj()
            .with("sample", J::s(T::NAME))
            .with("cfg", cfg.json())
            .with("set_ratio_before_first_call", pre_ratio.map(J::f).unwrap_or(J::Null))
            .with("pulse_centre_input_frame", J::f(n0))
            .with("pulse_sigma", J::f(sigma))
            .with("clip_length", J::u(clip_len))
            .with("through_boxed_vecresampler", J::b(boxed))
            .with("earlier_life_ratio_and_calls_before_reset", reuse.map(|(v, k)| J::Arr(vec![v.map(J::f).unwrap_or(J::Null), J::u(k)])).unwrap_or(J::Null))
            .with("chunk_size_schedule_seed", resize.map(|v| J::Int(v as i128)).unwrap_or(J::Null));
        set_desc(&desc);
        let mut cr = CaseResult { desc, ..Default::default() };
        if ctx.describe {
            return cr;
        }
        // 12 % of the cases read output_delay() and stream through the object-safe VecResampler wrapper
        let sig = Sig { seed: 0, kind: SigKind::Table(table) };
        let mut run = if boxed {
            match crate::any::AnyRes::<T>::build(&cfg) {
                Ok(r) => Runner::new(&cfg, Box::new(Boxed(r.boxed())), sig),
                Err(e) => {
                    cr.inconclusive = Some(format!("{}", e));
                    return cr;
                }
            }
        } else {
            match Runner::<T>::fresh(&cfg, sig) {
                Ok(r) => r,
                Err(e) => {
                    cr.inconclusive = Some(e);
                    return cr;
                }
            }
        };
        if boxed {
            st.add("cases_through_boxed_vecresampler", 1.0);
        }
        run.check_alloc = false;
        let op = Op::Proc { path: Path::Exact, slack_in: 0, slack_out: 0, mask: None, empty_inactive: false };
        if let Some((v, k)) = reuse {
            if rng.bool() {
                // ratio and chunk-size setters, masked calls, possibly a pending setter, then reset()
                earlier_life(&mut run, &mut Rng::derive(&[k as u64, v.map(|x| x.to_bits()).unwrap_or(7), 0x11fe]));
            } else {
                if let Some(v) = v {
                    run.step(&Op::SetRatio { v, ramp: rng.bool(), rel: false });
                }
                for _ in 0..k {
                    run.step(&op);
                }
                run.step(&Op::Reset);
                run.pos = 0;
            }
            st.add("clips_after_an_earlier_life_and_reset", 1.0);
        }
        if let Some(v) = pre_ratio {
            run.step(&Op::SetRatio { v, ramp: false, rel: false });
        } else if (n0 as u64) % 10 < 3 {
            // set_resample_ratio_relative(1.0): by the documentation a no-op
            noop_relative(&mut run);
        }
        // 15 %: the very first call carries a mask that switches the (only) channel off; its input lies in the
        // silent lead-in of the clip and its output frames count as silence, so the timeline is that of an
        // unmasked stream - provided the following calls, which carry no mask, process the channel again
        let mut lead_out = 0usize;
        if !boxed && rng.chance(0.15) {
            let g = run.drv.getters();
            if (g.in_next + flen) as f64 + 8.0 < n0 - 6.0 * sigma {
                let so = run.step(&Op::Proc { path: Path::Exact, slack_in: 0, slack_out: 0, mask: Some(vec![false]), empty_inactive: rng.bool() });
                if let Ok((_, o)) = so.res {
                    lead_out = o;
                    st.add("clips_with_a_masked_first_call", 1.0);
                }
            }
        }
        let delay = run.drv.getters().delay;
        let want_out = ((clip_len + tail) as f64 * r) as usize + delay + 8;
        let mut out: Vec<f64> = Vec::with_capacity(want_out + 4096);
        out.resize(lead_out, 0.0);
        let mut calls = 0;
        let mut rs = resize.map(|s| Rng::derive(&[s, 0x5153]));
        // push the clip, then zeros, until the recipe's frames (and the whole pulse) have come out;
        // the input cap allows for block-wise emission of the synchronous types
        let keep = (clip_len as f64 * r) as usize;
        let need_out = delay + keep + (r * 8.0) as usize + 16;
        let in_cap = clip_len + tail + 4 * (flen + cfg.chunk) + (need_out as f64 / r) as usize;
        while (out.len() < need_out || (run.pos as usize) < clip_len + tail) && (run.pos as usize) < in_cap && calls < 3_000_000 {
            if let Some(r) = rs.as_mut() {
                if r.chance(0.3) {
                    run.step(&Op::SetChunk(r.logi((cfg.chunk / 16).max(1), cfg.chunk)));
                }
            }
            let so = run.step(&op);
            calls += 1;
            match so.res {
                Ok(_) => out.extend(so.out[0].iter().map(|v| v.f64())),
                Err(e) => {
                    cr.inconclusive = Some(e);
                    return cr;
                }
            }
        }
        let d2 = run.drv.getters().delay;
        if d2 != delay {
            cr.viols.push(Viol::new("C14", "delay_changed_at_constant_ratio", format!("output_delay() {} before and {} after the stream", delay, d2)));
        }
        let mass: f64 = out.iter().sum();
        let mom: f64 = out.iter().enumerate().map(|(j, v)| j as f64 * v).sum();
        let want_mass = sigma * (2.0 * std::f64::consts::PI).sqrt() * r;
        if !mass.is_finite() {
            let j = out.iter().position(|v| !v.is_finite()).unwrap_or(0);
            cr.viols.push(Viol::new("C14", "clip_not_written", format!("output frame {} of the stream is {} (left unwritten by a call that reported it, or not finite): the recipe returns a clip with holes", j, out[j])));
            return cr;
        }
        if mass.abs() <= 0.05 * want_mass {
            // not smeared or attenuated but gone: the README recipe returns a clip without the event
            cr.viols.push(Viol::new("C14", "pulse_lost", format!("a pulse centred at input frame {} (sigma {:.1}, expected mass {:.3}) is missing from the output stream (mass {:.3e} over {} output frames)", n0, sigma, want_mass, mass, out.len())));
            return cr;
        }
        if !(mass > 0.5 * want_mass && mass < 1.5 * want_mass) {
            cr.inconclusive = Some(format!("pulse mass {} (expected about {}): the pulse did not pass the resampler intact, centroid unusable", mass, want_mass));
            return cr;
        }
        let centroid = mom / mass;
        let expected = n0 * r + delay as f64;
        let tol = r.max(1.0) + 1.0;
        let dev = centroid - expected;
        st.max("worst_deviation_over_tolerance", dev.abs() / tol);
        st.max(&format!("worst_deviation_frames.{}", if cfg.kind.is_sinc() { "sinc" } else if cfg.kind.is_fast() { "fast" } else { "fft" }), dev.abs() / r.max(1.0));
        if dev.abs() > tol {
            cr.viols.push(Viol::new(
                "C14",
                "delay_mismatch",
                format!(
                    "pulse centred at input frame {} (ratio {}) appears centred at output frame {:.3}; n*ratio + output_delay() = {:.3} (output_delay() = {}); deviation {:.3} > max(1,ratio)+1 = {:.3}",
                    n0, r, centroid, expected, delay, dev, tol
                ),
            ));
        }
        // README recipe: skip `delay` frames, keep clip_len * ratio frames
        if out.len() >= delay + keep {
            let clip = &out[delay..delay + keep];
            let m: f64 = clip.iter().sum();
            let c: f64 = clip.iter().enumerate().map(|(j, v)| j as f64 * v).sum::<f64>() / m.max(1e-300);
            st.add("recipe_clips_checked", 1.0);
            if m < 0.995 * mass {
                cr.viols.push(Viol::new("C14", "recipe_truncates_clip", format!("the recipe output holds only {:.4} of the pulse mass", m / mass)));
            } else if (c - n0 * r).abs() > tol {
                cr.viols.push(Viol::new("C14", "recipe_shifted_clip", format!("in the recipe output the pulse sits at frame {:.3}, ideally resampled clip has it at {:.3}", c, n0 * r)));
            }
        } else {
            cr.viols.push(Viol::new("C14", "recipe_truncates_clip", format!("only {} output frames after pushing {} frames of zeros behind the clip; the recipe needs {} + {}", out.len(), run.pos as usize - clip_len.min(run.pos as usize), delay, keep)));
        }
        st.add("pulses_measured", 1.0);
        st.add(&format!("cases.{}", cfg.kind.name()), 1.0);
        cr.class = Some(format!("{}|{}|{}|{}", T::NAME, cfg.class(), pre_ratio.is_some(), boxed));
        cr
    }
}

impl Monitor for Delay {
    fn name(&self) -> &'static str {
        "delay"
    }
    fn budget(&self, ctx: &Ctx) -> u64 {
        if ctx.tier == Tier::Quick {
            3_000
        } else {
            60_000
        }
    }
    fn case(&self, ctx: &Ctx, idx: u64, st: &mut Stats) -> CaseResult {
        let mut r = Rng::derive(&[ctx.seed, idx, 0x7e57]);
        if r.bool() {
            self.case_t::<f32>(ctx, idx, st)
        } else {
            self.case_t::<f64>(ctx, idx, st)
        }
    }
}
