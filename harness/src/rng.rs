//! Small deterministic PRNG (xoshiro256**) and helpers.  No external crates.

#[derive(Clone, Debug)]
pub struct Rng {
    s: [u64; 4],
}

pub fn splitmix(x: &mut u64) -> u64 {
    *x = x.wrapping_add(0x9E37_79B9_7F4A_7C15);
    let mut z = *x;
    z = (z ^ (z >> 30)).wrapping_mul(0xBF58_476D_1CE4_E5B9);
    z = (z ^ (z >> 27)).wrapping_mul(0x94D0_49BB_1331_11EB);
    z ^ (z >> 31)
}

/// Stateless 64-bit mix of several words (used to derive independent streams).
pub fn mix(words: &[u64]) -> u64 {
    let mut h = 0x243F_6A88_85A3_08D3u64;
    for w in words {
        h ^= *w;
        h = splitmix(&mut h);
    }
    h
}

impl Rng {
    pub fn new(seed: u64) -> Self {
        let mut x = seed;
        let s = [
            splitmix(&mut x),
            splitmix(&mut x),
            splitmix(&mut x),
            splitmix(&mut x),
        ];
        Rng { s }
    }
    pub fn derive(words: &[u64]) -> Self {
        Rng::new(mix(words))
    }
    pub fn next(&mut self) -> u64 {
        let r = self.s[1].wrapping_mul(5).rotate_left(7).wrapping_mul(9);
        let t = self.s[1] << 17;
        self.s[2] ^= self.s[0];
        self.s[3] ^= self.s[1];
        self.s[1] ^= self.s[2];
        self.s[0] ^= self.s[3];
        self.s[2] ^= t;
        self.s[3] = self.s[3].rotate_left(45);
        r
    }
    /// uniform in [0,1)
    pub fn f(&mut self) -> f64 {
        (self.next() >> 11) as f64 / (1u64 << 53) as f64
    }
    /// uniform in [lo,hi)
    pub fn uf(&mut self, lo: f64, hi: f64) -> f64 {
        lo + (hi - lo) * self.f()
    }
    /// log-uniform in [lo,hi]
    pub fn logf(&mut self, lo: f64, hi: f64) -> f64 {
        (self.uf(lo.ln(), hi.ln())).exp().clamp(lo, hi)
    }
    /// uniform integer in [lo,hi] inclusive
    pub fn ui(&mut self, lo: usize, hi: usize) -> usize {
        if hi <= lo {
            return lo;
        }
        lo + (self.next() % ((hi - lo + 1) as u64)) as usize
    }
    /// log-uniform integer in [lo,hi]
    pub fn logi(&mut self, lo: usize, hi: usize) -> usize {
        let v = self.logf(lo as f64, hi as f64 + 0.999).floor() as usize;
        v.clamp(lo, hi)
    }
    pub fn bool(&mut self) -> bool {
        self.next() & 1 == 1
    }
    pub fn chance(&mut self, p: f64) -> bool {
        self.f() < p
    }
    pub fn pick<'a, T>(&mut self, xs: &'a [T]) -> &'a T {
        &xs[self.ui(0, xs.len() - 1)]
    }
    /// standard normal (Box-Muller)
    pub fn gauss(&mut self) -> f64 {
        let u1 = 1.0 - self.f();
        let u2 = self.f();
        (-2.0 * u1.ln()).sqrt() * (2.0 * std::f64::consts::PI * u2).cos()
    }
}

/// next representable f64 above x (x finite)
pub fn next_up(x: f64) -> f64 {
    if x.is_nan() || x == f64::INFINITY {
        return x;
    }
    if x == 0.0 {
        return f64::from_bits(1);
    }
    let b = x.to_bits();
    if x > 0.0 {
        f64::from_bits(b + 1)
    } else {
        f64::from_bits(b - 1)
    }
}
pub fn next_down(x: f64) -> f64 {
    -next_up(-x)
}
pub fn step_ulps(mut x: f64, n: i32) -> f64 {
    for _ in 0..n.abs() {
        x = if n > 0 { next_up(x) } else { next_down(x) };
    }
    x
}
