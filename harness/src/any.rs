//! `AnyRes<T>`: one enum over the seven resampler types exposing every trait method.
//! (The `Resampler` trait is not object safe and `VecResampler` lacks reset/set_chunk_size.)

use crate::cfg::{Cfg, Kind, Smp};
use rubato::sinc_interpolator::SincInterpolator;
use rubato::{
    FastFixedIn, FastFixedOut, FftFixedIn, FftFixedInOut, FftFixedOut, ResampleResult, Resampler,
    ResamplerConstructionError, SincFixedIn, SincFixedOut, SincInterpolationParameters,
};

pub enum AnyRes<T: Smp> {
    SincIn(SincFixedIn<T>),
    SincOut(SincFixedOut<T>),
    FastIn(FastFixedIn<T>),
    FastOut(FastFixedOut<T>),
    FftIn(FftFixedIn<T>),
    FftOut(FftFixedOut<T>),
    FftInOut(FftFixedInOut<T>),
}

macro_rules! disp {
    ($s:expr, $r:ident => $e:expr) => {
        match $s {
            AnyRes::SincIn($r) => $e,
            AnyRes::SincOut($r) => $e,
            AnyRes::FastIn($r) => $e,
            AnyRes::FastOut($r) => $e,
            AnyRes::FftIn($r) => $e,
            AnyRes::FftOut($r) => $e,
            AnyRes::FftInOut($r) => $e,
        }
    };
}

#[derive(Clone, Copy, Debug, PartialEq, Eq, Hash)]
pub struct Getters {
    pub in_next: usize,
    pub in_max: usize,
    pub out_next: usize,
    pub out_max: usize,
    pub delay: usize,
    pub nch: usize,
}

impl<T: Smp> AnyRes<T> {
    pub fn params(c: &Cfg) -> SincInterpolationParameters {
        SincInterpolationParameters {
            sinc_len: c.sinc_len,
            f_cutoff: c.f_cutoff,
            oversampling_factor: c.oversampling,
            interpolation: c.interp.to_rubato(),
            window: c.window.to_rubato(),
        }
    }

    /// the kernel `c.kernel` names, built from the same parameters the constructor would pass to its own
    /// dispatch (length rounded up to a multiple of 8, cutoff scaled by a down-sampling ratio); a kernel
    /// the CPU (or Miri) lacks falls back to the scalar one
    pub fn explicit_kernel(c: &Cfg) -> Box<dyn SincInterpolator<T>> {
        use rubato::sinc_interpolator::ScalarInterpolator;
        let len = 8 * (((c.sinc_len as f32) / 8.0).ceil() as usize);
        let fc = if c.ratio >= 1.0 { c.f_cutoff } else { c.f_cutoff * c.ratio as f32 };
        let w = c.window.to_rubato();
        #[cfg(target_arch = "x86_64")]
        {
            use rubato::sinc_interpolator::sinc_interpolator_avx::AvxInterpolator;
            use rubato::sinc_interpolator::sinc_interpolator_sse::SseInterpolator;
            if c.kernel == crate::cfg::Kernel::Avx {
                if let Ok(k) = AvxInterpolator::<T>::new(len, c.oversampling, fc, w) {
                    return Box::new(k);
                }
            }
            if c.kernel == crate::cfg::Kernel::Sse {
                if let Ok(k) = SseInterpolator::<T>::new(len, c.oversampling, fc, w) {
                    return Box::new(k);
                }
            }
        }
        Box::new(ScalarInterpolator::<T>::new(len, c.oversampling, fc, w))
    }

    pub fn build(c: &Cfg) -> Result<Self, ResamplerConstructionError> {
        if c.kind.is_sinc() && c.kernel != crate::cfg::Kernel::Auto {
            return Self::build_with(c, Self::explicit_kernel(c));
        }
        Ok(match c.kind {
            Kind::SincIn => AnyRes::SincIn(SincFixedIn::new(c.ratio, c.max_rel, Self::params(c), c.chunk, c.channels)?),
            Kind::SincOut => AnyRes::SincOut(SincFixedOut::new(c.ratio, c.max_rel, Self::params(c), c.chunk, c.channels)?),
            Kind::FastIn => AnyRes::FastIn(FastFixedIn::new(c.ratio, c.max_rel, c.degree.to_rubato(), c.chunk, c.channels)?),
            Kind::FastOut => AnyRes::FastOut(FastFixedOut::new(c.ratio, c.max_rel, c.degree.to_rubato(), c.chunk, c.channels)?),
            Kind::FftIn => AnyRes::FftIn(FftFixedIn::new(c.fs_in, c.fs_out, c.chunk, c.sub_chunks, c.channels)?),
            Kind::FftOut => AnyRes::FftOut(FftFixedOut::new(c.fs_in, c.fs_out, c.chunk, c.sub_chunks, c.channels)?),
            Kind::FftInOut => AnyRes::FftInOut(FftFixedInOut::new(c.fs_in, c.fs_out, c.chunk, c.channels)?),
        })
    }

    /// Sinc types only: build around a caller-supplied interpolator (probe / explicit kernel).
    pub fn build_with(c: &Cfg, interp: Box<dyn SincInterpolator<T>>) -> Result<Self, ResamplerConstructionError> {
        Ok(match c.kind {
            Kind::SincIn => AnyRes::SincIn(SincFixedIn::new_with_interpolator(
                c.ratio,
                c.max_rel,
                c.interp.to_rubato(),
                interp,
                c.chunk,
                c.channels,
            )?),
            Kind::SincOut => AnyRes::SincOut(SincFixedOut::new_with_interpolator(
                c.ratio,
                c.max_rel,
                c.interp.to_rubato(),
                interp,
                c.chunk,
                c.channels,
            )?),
            _ => panic!("build_with on a non-sinc type"),
        })
    }

    pub fn process_into_buffer<Vin: AsRef<[T]>, Vout: AsMut<[T]>>(
        &mut self,
        wi: &[Vin],
        wo: &mut [Vout],
        mask: Option<&[bool]>,
    ) -> ResampleResult<(usize, usize)> {
        disp!(self, r => r.process_into_buffer(wi, wo, mask))
    }
    pub fn process<Vin: AsRef<[T]>>(&mut self, wi: &[Vin], mask: Option<&[bool]>) -> ResampleResult<Vec<Vec<T>>> {
        disp!(self, r => r.process(wi, mask))
    }
    pub fn process_partial_into_buffer<Vin: AsRef<[T]>, Vout: AsMut<[T]>>(
        &mut self,
        wi: Option<&[Vin]>,
        wo: &mut [Vout],
        mask: Option<&[bool]>,
    ) -> ResampleResult<(usize, usize)> {
        disp!(self, r => r.process_partial_into_buffer(wi, wo, mask))
    }
    pub fn process_partial<Vin: AsRef<[T]>>(&mut self, wi: Option<&[Vin]>, mask: Option<&[bool]>) -> ResampleResult<Vec<Vec<T>>> {
        disp!(self, r => r.process_partial(wi, mask))
    }
    pub fn input_frames_next(&self) -> usize {
        disp!(self, r => r.input_frames_next())
    }
    pub fn input_frames_max(&self) -> usize {
        disp!(self, r => r.input_frames_max())
    }
    pub fn output_frames_next(&self) -> usize {
        disp!(self, r => r.output_frames_next())
    }
    pub fn output_frames_max(&self) -> usize {
        disp!(self, r => r.output_frames_max())
    }
    pub fn output_delay(&self) -> usize {
        disp!(self, r => r.output_delay())
    }
    pub fn nbr_channels(&self) -> usize {
        disp!(self, r => r.nbr_channels())
    }
    pub fn input_buffer_allocate(&self, filled: bool) -> Vec<Vec<T>> {
        disp!(self, r => r.input_buffer_allocate(filled))
    }
    pub fn output_buffer_allocate(&self, filled: bool) -> Vec<Vec<T>> {
        disp!(self, r => r.output_buffer_allocate(filled))
    }
    pub fn set_resample_ratio(&mut self, v: f64, ramp: bool) -> ResampleResult<()> {
        disp!(self, r => r.set_resample_ratio(v, ramp))
    }
    pub fn set_resample_ratio_relative(&mut self, v: f64, ramp: bool) -> ResampleResult<()> {
        disp!(self, r => r.set_resample_ratio_relative(v, ramp))
    }
    pub fn set_chunk_size(&mut self, n: usize) -> ResampleResult<()> {
        disp!(self, r => r.set_chunk_size(n))
    }
    pub fn reset(&mut self) {
        disp!(self, r => r.reset())
    }
    pub fn getters(&self) -> Getters {
        Getters {
            in_next: self.input_frames_next(),
            in_max: self.input_frames_max(),
            out_next: self.output_frames_next(),
            out_max: self.output_frames_max(),
            delay: self.output_delay(),
            nch: self.nbr_channels(),
        }
    }
    /// Move into the object-safe wrapper.
    /// the instance seen through the object-safe wrapper trait, without giving up the concrete type
    /// (reset / set_chunk_size stay reachable)
    pub fn as_dyn(&mut self) -> &mut dyn rubato::VecResampler<T> {
        match self {
            AnyRes::SincIn(r) => r,
            AnyRes::SincOut(r) => r,
            AnyRes::FastIn(r) => r,
            AnyRes::FastOut(r) => r,
            AnyRes::FftIn(r) => r,
            AnyRes::FftOut(r) => r,
            AnyRes::FftInOut(r) => r,
        }
    }
    pub fn as_dyn_ref(&self) -> &dyn rubato::VecResampler<T> {
        match self {
            AnyRes::SincIn(r) => r,
            AnyRes::SincOut(r) => r,
            AnyRes::FastIn(r) => r,
            AnyRes::FastOut(r) => r,
            AnyRes::FftIn(r) => r,
            AnyRes::FftOut(r) => r,
            AnyRes::FftInOut(r) => r,
        }
    }

    pub fn boxed(self) -> Box<dyn rubato::VecResampler<T>> {
        match self {
            AnyRes::SincIn(r) => Box::new(r),
            AnyRes::SincOut(r) => Box::new(r),
            AnyRes::FastIn(r) => Box::new(r),
            AnyRes::FastOut(r) => Box::new(r),
            AnyRes::FftIn(r) => Box::new(r),
            AnyRes::FftOut(r) => Box::new(r),
            AnyRes::FftInOut(r) => Box::new(r),
        }
    }
}

/// Stable textual form of an error: variant + fields (used for comparison and reports).
pub fn err_repr(e: &rubato::ResampleError) -> String {
    use rubato::ResampleError as E;
    match e {
        E::RatioOutOfBounds { provided, original, max_relative_ratio } => {
            format!("RatioOutOfBounds{{provided:{:?},original:{:?},max_relative_ratio:{:?}}}", provided, original, max_relative_ratio)
        }
        E::SyncNotAdjustable => "SyncNotAdjustable".into(),
        E::WrongNumberOfInputChannels { expected, actual } => format!("WrongNumberOfInputChannels{{expected:{},actual:{}}}", expected, actual),
        E::WrongNumberOfOutputChannels { expected, actual } => format!("WrongNumberOfOutputChannels{{expected:{},actual:{}}}", expected, actual),
        E::WrongNumberOfMaskChannels { expected, actual } => format!("WrongNumberOfMaskChannels{{expected:{},actual:{}}}", expected, actual),
        E::InsufficientInputBufferSize { channel, expected, actual } => {
            format!("InsufficientInputBufferSize{{channel:{},expected:{},actual:{}}}", channel, expected, actual)
        }
        E::InsufficientOutputBufferSize { channel, expected, actual } => {
            format!("InsufficientOutputBufferSize{{channel:{},expected:{},actual:{}}}", channel, expected, actual)
        }
        E::InvalidChunkSize { max, requested } => format!("InvalidChunkSize{{max:{},requested:{}}}", max, requested),
        E::ChunkSizeNotAdjustable => "ChunkSizeNotAdjustable".into(),
    }
}
