//! Worker framework shared by all monitors: case loop, event log protocol, panic capture,
//! statistics.
//!
//! Event log (stdout, one record per line, flushed):
//!   B <idx>            a case is about to run          (so that an abort can be mapped to it)
//!   E <idx>            the case finished
//!   V <json>           a violation (carries the full case description = replay)
//!   I <json>           an inconclusive case (panic that is not attributable to the monitored property, ...)
//!   S <json>           final statistics of this worker

use crate::json::J;
use crate::rng::{mix, Rng};
use std::cell::RefCell;
use std::collections::{BTreeMap, BTreeSet};
use std::io::Write;
use std::panic::{catch_unwind, AssertUnwindSafe};

#[derive(Clone, Copy, Debug, PartialEq, Eq)]
pub enum Tier {
    Quick,
    Thorough,
}

#[derive(Clone, Debug)]
pub struct Ctx {
    pub monitor: String,
    pub prop: String,
    pub seed: u64,
    pub shard: u64,
    pub nshards: u64,
    pub tier: Tier,
    pub only: Option<u64>,
    pub cases: Option<u64>,
    pub profile: String,
    pub describe: bool,
    pub variant: String,
    pub first: u64,
    pub after: Option<u64>,
    /// per-case wall-clock watchdog in seconds (0 = off)
    pub case_timeout: u64,
}

impl Ctx {
    pub fn rng_for(&self, idx: u64) -> Rng {
        let mut h = 0u64;
        for b in self.monitor.bytes() {
            h = h.wrapping_mul(131).wrapping_add(b as u64);
        }
        Rng::derive(&[self.seed, h, idx])
    }
    pub fn sub_seed(&self, idx: u64, k: u64) -> u64 {
        mix(&[self.seed, idx, k, 0x5157])
    }
}

#[derive(Clone, Debug)]
pub struct Viol {
    pub prop: String,
    pub clause: String,
    pub detail: String,
    pub step: usize,
}

impl Viol {
    pub fn new(prop: &str, clause: &str, detail: String) -> Self {
        Viol { prop: prop.into(), clause: clause.into(), detail, step: 0 }
    }
}

#[derive(Default)]
pub struct CaseResult {
    /// full description (configuration + operations): the replay
    pub desc: J,
    /// distinct-case class; None = trivial case (did not exercise the oracle)
    pub class: Option<String>,
    pub viols: Vec<Viol>,
    pub inconclusive: Option<String>,
}

impl Default for J {
    fn default() -> Self {
        J::Null
    }
}

#[derive(Default)]
pub struct Stats {
    pub evaluations: u64,
    pub trivial: u64,
    pub classes: BTreeSet<u64>,
    pub samples: Vec<J>,
    pub sums: BTreeMap<String, f64>,
    pub maxes: BTreeMap<String, f64>,
    pub mins: BTreeMap<String, f64>,
    pub notes: BTreeMap<String, String>,
    pub sets: BTreeMap<String, BTreeSet<u64>>,
}

impl Stats {
    pub fn add(&mut self, k: &str, v: f64) {
        *self.sums.entry(k.to_string()).or_insert(0.0) += v;
    }
    pub fn max(&mut self, k: &str, v: f64) {
        let e = self.maxes.entry(k.to_string()).or_insert(f64::NEG_INFINITY);
        if v > *e {
            *e = v;
        }
    }
    pub fn min(&mut self, k: &str, v: f64) {
        let e = self.mins.entry(k.to_string()).or_insert(f64::INFINITY);
        if v < *e {
            *e = v;
        }
    }
    pub fn note(&mut self, k: &str, v: String) {
        self.notes.insert(k.to_string(), v);
    }
    /// distinct-value set (hashed) under a name
    pub fn distinct(&mut self, k: &str, v: &str) {
        self.sets.entry(k.to_string()).or_default().insert(hash_str(v));
    }
    pub fn json(&self) -> J {
        let mut o = J::obj();
        o.set("evaluations", J::Int(self.evaluations as i128));
        o.set("trivial", J::Int(self.trivial as i128));
        o.set("classes", J::Arr(self.classes.iter().map(|c| J::Str(format!("{:x}", c))).collect()));
        o.set("samples", J::Arr(self.samples.clone()));
        let mut s = J::obj();
        for (k, v) in &self.sums {
            s.set(k, J::f(*v));
        }
        o.set("sums", s);
        let mut s = J::obj();
        for (k, v) in &self.maxes {
            s.set(k, J::f(*v));
        }
        o.set("maxes", s);
        let mut s = J::obj();
        for (k, v) in &self.mins {
            s.set(k, J::f(*v));
        }
        o.set("mins", s);
        let mut s = J::obj();
        for (k, v) in &self.notes {
            s.set(k, J::s(v));
        }
        o.set("notes", s);
        let mut s = J::obj();
        for (k, v) in &self.sets {
            s.set(k, J::Arr(v.iter().map(|c| J::Str(format!("{:x}", c))).collect()));
        }
        o.set("sets", s);
        o
    }
}

pub fn hash_str(s: &str) -> u64 {
    let mut h = 0xcbf29ce484222325u64;
    for b in s.bytes() {
        h ^= b as u64;
        h = h.wrapping_mul(0x100000001b3);
    }
    h
}

thread_local! {
    static CUR_DESC: RefCell<J> = const { RefCell::new(J::Null) };
    static LAST_PANIC: RefCell<Option<String>> = const { RefCell::new(None) };
}

/// Record the description of the case being executed (read back if it panics).
pub fn set_desc(d: &J) {
    CUR_DESC.with(|c| *c.borrow_mut() = d.clone());
}
pub fn cur_desc() -> J {
    CUR_DESC.with(|c| c.borrow().clone())
}

pub fn install_panic_hook() {
    std::panic::set_hook(Box::new(|info| {
        let loc = info.location().map(|l| format!("{}:{}", l.file(), l.line())).unwrap_or_default();
        let msg = if let Some(s) = info.payload().downcast_ref::<&str>() {
            s.to_string()
        } else if let Some(s) = info.payload().downcast_ref::<String>() {
            s.clone()
        } else {
            "<non-string panic>".to_string()
        };
        LAST_PANIC.with(|p| *p.borrow_mut() = Some(format!("{} @ {}", msg, loc)));
    }));
}

pub fn take_panic() -> Option<String> {
    LAST_PANIC.with(|p| p.borrow_mut().take())
}

/// Run a closure, converting a panic into Err(message @ location).
pub fn guarded<R>(f: impl FnOnce() -> R) -> Result<R, String> {
    match catch_unwind(AssertUnwindSafe(f)) {
        Ok(r) => Ok(r),
        Err(_) => Err(take_panic().unwrap_or_else(|| "panic".into())),
    }
}

pub trait Monitor {
    fn name(&self) -> &'static str;
    /// total number of cases over all shards
    fn budget(&self, ctx: &Ctx) -> u64;
    /// Property a panic inside a case is attributed to (None: inconclusive for that case).
    fn panic_prop(&self) -> Option<&'static str> {
        None
    }
    fn case(&self, ctx: &Ctx, idx: u64, st: &mut Stats) -> CaseResult;
    /// optional post-processing after all cases (e.g. global summaries)
    fn finish(&self, _ctx: &Ctx, _st: &mut Stats) {}
}

pub fn emit(line: &str) {
    let so = std::io::stdout();
    let mut l = so.lock();
    let _ = l.write_all(line.as_bytes());
    let _ = l.write_all(b"\n");
    let _ = l.flush();
}

static CASE_START_MS: std::sync::atomic::AtomicU64 = std::sync::atomic::AtomicU64::new(0);
static CASE_IDX: std::sync::atomic::AtomicU64 = std::sync::atomic::AtomicU64::new(0);

fn now_ms() -> u64 {
    std::time::SystemTime::now().duration_since(std::time::UNIX_EPOCH).map(|d| d.as_millis() as u64).unwrap_or(0)
}

/// Hang watchdog: a case that runs a thousand times longer than any legitimate case is
/// reported (`H <idx>`) and the worker exits with status 98.
fn start_watchdog(limit_s: u64) {
    use std::sync::atomic::Ordering::SeqCst;
    if limit_s == 0 || cfg!(miri) {
        return;
    }
    std::thread::spawn(move || loop {
        std::thread::sleep(std::time::Duration::from_millis(500));
        let st = CASE_START_MS.load(SeqCst);
        if st != 0 && now_ms().saturating_sub(st) > limit_s * 1000 {
            emit(&format!("H {}", CASE_IDX.load(SeqCst)));
            std::process::exit(98);
        }
    });
}

pub fn run_monitor(m: &dyn Monitor, ctx: &Ctx) -> i32 {
    install_panic_hook();
    start_watchdog(ctx.case_timeout);
    let total = ctx.cases.unwrap_or_else(|| m.budget(ctx));
    let mut st = Stats::default();
    let mut nviol = 0u64;
    let mut ninc = 0u64;
    let t0 = std::time::Instant::now();
    let idxs: Vec<u64> = match ctx.only {
        Some(i) => vec![i],
        None => (0..total)
            .filter(|i| i % ctx.nshards == ctx.shard)
            .map(|i| i + ctx.first)
            .filter(|i| ctx.after.map(|a| *i > a).unwrap_or(true))
            .collect(),
    };
    for idx in idxs {
        emit(&format!("B {}", idx));
        CASE_IDX.store(idx, std::sync::atomic::Ordering::SeqCst);
        CASE_START_MS.store(now_ms(), std::sync::atomic::Ordering::SeqCst);
        set_desc(&J::Null);
        let r = catch_unwind(AssertUnwindSafe(|| m.case(ctx, idx, &mut st)));
        if ctx.describe {
            if let Ok(cr) = &r {
                emit(&format!("D {}", cr.desc.dump()));
            }
            continue;
        }
        st.evaluations += 1;
        match r {
            Ok(cr) => {
                match &cr.class {
                    Some(c) => {
                        st.classes.insert(hash_str(c));
                    }
                    None => st.trivial += 1,
                }
                if st.samples.len() < 3 && !matches!(cr.desc, J::Null) && cr.class.is_some() {
                    st.samples.push(cr.desc.clone());
                }
                if let Some(why) = &cr.inconclusive {
                    ninc += 1;
                    emit(&format!("I {}", J::obj().with("idx", J::Int(idx as i128)).with("why", J::s(why)).with("case", cr.desc.clone()).dump()));
                }
                for v in &cr.viols {
                    if v.prop == ctx.prop || ctx.prop == "*" {
                        nviol += 1;
                        let o = J::obj()
                            .with("prop", J::s(&v.prop))
                            .with("clause", J::s(&v.clause))
                            .with("detail", J::s(&v.detail))
                            .with("step", J::u(v.step))
                            .with("idx", J::Int(idx as i128))
                            .with("case", cr.desc.clone());
                        emit(&format!("V {}", o.dump()));
                    } else {
                        st.add(&format!("other_findings.{}.{}", v.prop, v.clause), 1.0);
                    }
                }
            }
            Err(_) => {
                let msg = take_panic().unwrap_or_else(|| "panic".into());
                let desc = cur_desc();
                match m.panic_prop() {
                    Some(p) if p == ctx.prop || ctx.prop == "*" => {
                        nviol += 1;
                        let o = J::obj()
                            .with("prop", J::s(p))
                            .with("clause", J::s("panic"))
                            .with("detail", J::s(&msg))
                            .with("step", J::u(0))
                            .with("idx", J::Int(idx as i128))
                            .with("case", desc);
                        emit(&format!("V {}", o.dump()));
                    }
                    _ => {
                        ninc += 1;
                        emit(&format!("I {}", J::obj().with("idx", J::Int(idx as i128)).with("why", J::s(&format!("panic: {}", msg))).with("case", desc).dump()));
                    }
                }
            }
        }
        CASE_START_MS.store(0, std::sync::atomic::Ordering::SeqCst);
        emit(&format!("E {}", idx));
    }
    m.finish(ctx, &mut st);
    let mut s = st.json();
    s.set("violations", J::Int(nviol as i128));
    s.set("inconclusive", J::Int(ninc as i128));
    s.set("wall_s", J::f(t0.elapsed().as_secs_f64()));
    s.set("monitor", J::s(m.name()));
    s.set("variant", J::s(&ctx.variant));
    emit(&format!("S {}", s.dump()));
    0
}
