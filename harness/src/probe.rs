//! Probing `SincInterpolator` (M-IDX for the sinc resamplers).
//!
//! Passed to `SincFixedIn/Out::new_with_interpolator`.  For the index signal x[n] = n+1 it
//! returns the evaluation instant a real table realises for (index, subindex),
//! `wave[i+L/2-1] + (s+1)/N * (wave[i+L/2] - wave[i+L/2-1])`, so the resampler's own
//! cubic/quadratic/linear blend of those points reproduces the instant of each output frame.
//! It records the extreme window positions against `wave.len()`, the largest sub-index, and
//! checks that the L samples of every window form one contiguous run of the index signal
//! (zeros, then consecutive integers).  A non-contiguous window yields its normal value plus
//! a finite offset (1000 frames): if that window carries weight w the output instant is
//! disturbed by 1000*w, i.e. visibly for every w above ~1e-12; if its weight is zero or at
//! rounding level (positions on or within an ulp of the grid, where the code legitimately
//! computes a neighbour whose polynomial weight vanishes) nothing happens and it is only
//! counted.

use crate::cfg::Smp;
use rubato::sinc_interpolator::SincInterpolator;
use std::sync::atomic::{AtomicI64, AtomicU64, Ordering::Relaxed};
use std::sync::Arc;

#[derive(Default)]
pub struct ProbeStats {
    pub calls: AtomicU64,
    pub noncontig: AtomicU64,
    /// windows that do not satisfy index + len < wave.len() (the real kernels assert this)
    pub out_of_range: AtomicU64,
    pub bad_subindex: AtomicU64,
    /// smallest observed wave.len() - (index + len)   (must stay >= 1)
    pub min_tail_margin: AtomicI64,
    pub min_index: AtomicI64,
}

pub struct Probe<T> {
    len: usize,
    n: usize,
    pub stats: Arc<ProbeStats>,
    check_contig: bool,
    _p: std::marker::PhantomData<T>,
}

pub const POISON: f64 = 1e30;
pub const STALE_OFFSET: f64 = 1000.0;

impl<T: Smp> Probe<T> {
    pub fn new(len: usize, n: usize, check_contig: bool) -> (Self, Arc<ProbeStats>) {
        let stats = Arc::new(ProbeStats::default());
        stats.min_tail_margin.store(i64::MAX, Relaxed);
        stats.min_index.store(i64::MAX, Relaxed);
        (Probe { len, n, stats: stats.clone(), check_contig, _p: std::marker::PhantomData }, stats)
    }
}

impl<T: Smp> SincInterpolator<T> for Probe<T> {
    fn get_sinc_interpolated(&self, wave: &[T], index: usize, subindex: usize) -> T {
        let st = &self.stats;
        st.calls.fetch_add(1, Relaxed);
        let margin = wave.len() as i64 - (index + self.len) as i64;
        st.min_tail_margin.fetch_min(margin, Relaxed);
        st.min_index.fetch_min(index as i64, Relaxed);
        if margin < 1 {
            st.out_of_range.fetch_add(1, Relaxed);
            return T::of64(POISON);
        }
        if subindex >= self.n {
            st.bad_subindex.fetch_add(1, Relaxed);
            return T::of64(POISON);
        }
        let w = &wave[index..index + self.len];
        let mut offset = 0.0;
        if self.check_contig {
            let mut prev = w[0].f64();
            let mut ok = true;
            for v in &w[1..] {
                let x = v.f64();
                // zeros*, then a run of consecutive integers
                if !((prev == 0.0 && (x == 0.0 || x >= 1.0)) || (prev != 0.0 && x == prev + 1.0)) {
                    ok = false;
                    break;
                }
                prev = x;
            }
            if !ok {
                st.noncontig.fetch_add(1, Relaxed);
                offset = STALE_OFFSET;
            }
        }
        let a = w[self.len / 2 - 1].f64();
        let b = w[self.len / 2].f64();
        T::of64(a + (subindex as f64 + 1.0) / self.n as f64 * (b - a) + offset)
    }
    fn len(&self) -> usize {
        self.len
    }
    fn nbr_sincs(&self) -> usize {
        self.n
    }
}
