//! Minimal JSON value + writer (and a tiny reader for replay files).

#[derive(Clone, Debug)]
pub enum J {
    Null,
    Bool(bool),
    Num(f64),
    Int(i128),
    Str(String),
    Arr(Vec<J>),
    Obj(Vec<(String, J)>),
}

impl J {
    pub fn obj() -> J {
        J::Obj(Vec::new())
    }
    pub fn arr() -> J {
        J::Arr(Vec::new())
    }
    pub fn s(x: &str) -> J {
        J::Str(x.to_string())
    }
    pub fn u(x: usize) -> J {
        J::Int(x as i128)
    }
    pub fn i(x: i64) -> J {
        J::Int(x as i128)
    }
    pub fn f(x: f64) -> J {
        J::Num(x)
    }
    pub fn b(x: bool) -> J {
        J::Bool(x)
    }
    pub fn set(&mut self, k: &str, v: J) -> &mut J {
        if let J::Obj(items) = self {
            if let Some(it) = items.iter_mut().find(|(kk, _)| kk == k) {
                it.1 = v;
            } else {
                items.push((k.to_string(), v));
            }
        }
        self
    }
    pub fn with(mut self, k: &str, v: J) -> J {
        self.set(k, v);
        self
    }
    pub fn push(&mut self, v: J) {
        if let J::Arr(items) = self {
            items.push(v);
        }
    }
    pub fn get(&self, k: &str) -> Option<&J> {
        if let J::Obj(items) = self {
            items.iter().find(|(kk, _)| kk == k).map(|(_, v)| v)
        } else {
            None
        }
    }
    pub fn as_u64(&self) -> Option<u64> {
        match self {
            J::Int(i) => Some(*i as u64),
            J::Num(f) => Some(*f as u64),
            _ => None,
        }
    }
    pub fn as_f64(&self) -> Option<f64> {
        match self {
            J::Int(i) => Some(*i as f64),
            J::Num(f) => Some(*f),
            _ => None,
        }
    }
    pub fn as_str(&self) -> Option<&str> {
        if let J::Str(s) = self {
            Some(s)
        } else {
            None
        }
    }
    pub fn as_arr(&self) -> Option<&Vec<J>> {
        if let J::Arr(a) = self {
            Some(a)
        } else {
            None
        }
    }

    pub fn dump(&self) -> String {
        let mut s = String::new();
        self.write(&mut s);
        s
    }
    fn write(&self, out: &mut String) {
        match self {
            J::Null => out.push_str("null"),
            J::Bool(b) => out.push_str(if *b { "true" } else { "false" }),
            J::Int(i) => out.push_str(&i.to_string()),
            J::Num(f) => {
                if f.is_finite() {
                    // shortest round-trip representation
                    let s = format!("{:?}", f);
                    out.push_str(&s);
                } else {
                    // JSON has no NaN/inf: encode as string
                    out.push('"');
                    out.push_str(&format!("{}", f));
                    out.push('"');
                }
            }
            J::Str(s) => {
                out.push('"');
                for c in s.chars() {
                    match c {
                        '"' => out.push_str("\\\""),
                        '\\' => out.push_str("\\\\"),
                        '\n' => out.push_str("\\n"),
                        '\r' => out.push_str("\\r"),
                        '\t' => out.push_str("\\t"),
                        c if (c as u32) < 0x20 => out.push_str(&format!("\\u{:04x}", c as u32)),
                        c => out.push(c),
                    }
                }
                out.push('"');
            }
            J::Arr(a) => {
                out.push('[');
                for (i, v) in a.iter().enumerate() {
                    if i > 0 {
                        out.push(',');
                    }
                    v.write(out);
                }
                out.push(']');
            }
            J::Obj(o) => {
                out.push('{');
                for (i, (k, v)) in o.iter().enumerate() {
                    if i > 0 {
                        out.push(',');
                    }
                    J::Str(k.clone()).write(out);
                    out.push(':');
                    v.write(out);
                }
                out.push('}');
            }
        }
    }

    // ---- reader (enough for our own replay files) ----
    pub fn parse(text: &str) -> Result<J, String> {
        let b = text.as_bytes();
        let mut p = 0usize;
        let v = parse_val(b, &mut p)?;
        skip_ws(b, &mut p);
        if p != b.len() {
            return Err(format!("trailing data at {}", p));
        }
        Ok(v)
    }
}

fn skip_ws(b: &[u8], p: &mut usize) {
    while *p < b.len() && (b[*p] as char).is_whitespace() {
        *p += 1;
    }
}

fn parse_val(b: &[u8], p: &mut usize) -> Result<J, String> {
    skip_ws(b, p);
    if *p >= b.len() {
        return Err("eof".into());
    }
    match b[*p] {
        b'{' => {
            *p += 1;
            let mut items = Vec::new();
            loop {
                skip_ws(b, p);
                if *p < b.len() && b[*p] == b'}' {
                    *p += 1;
                    break;
                }
                let k = match parse_val(b, p)? {
                    J::Str(s) => s,
                    _ => return Err("key".into()),
                };
                skip_ws(b, p);
                if *p >= b.len() || b[*p] != b':' {
                    return Err("colon".into());
                }
                *p += 1;
                let v = parse_val(b, p)?;
                items.push((k, v));
                skip_ws(b, p);
                if *p < b.len() && b[*p] == b',' {
                    *p += 1;
                }
            }
            Ok(J::Obj(items))
        }
        b'[' => {
            *p += 1;
            let mut items = Vec::new();
            loop {
                skip_ws(b, p);
                if *p < b.len() && b[*p] == b']' {
                    *p += 1;
                    break;
                }
                items.push(parse_val(b, p)?);
                skip_ws(b, p);
                if *p < b.len() && b[*p] == b',' {
                    *p += 1;
                }
            }
            Ok(J::Arr(items))
        }
        b'"' => {
            *p += 1;
            let mut s = Vec::new();
            while *p < b.len() && b[*p] != b'"' {
                if b[*p] == b'\\' && *p + 1 < b.len() {
                    *p += 1;
                    match b[*p] {
                        b'n' => s.push(b'\n'),
                        b't' => s.push(b'\t'),
                        b'r' => s.push(b'\r'),
                        b'u' => {
                            let hex = std::str::from_utf8(&b[*p + 1..*p + 5]).map_err(|e| e.to_string())?;
                            let cp = u32::from_str_radix(hex, 16).map_err(|e| e.to_string())?;
                            let mut buf = [0u8; 4];
                            let ch = char::from_u32(cp).unwrap_or('?');
                            s.extend_from_slice(ch.encode_utf8(&mut buf).as_bytes());
                            *p += 4;
                        }
                        c => s.push(c),
                    }
                } else {
                    s.push(b[*p]);
                }
                *p += 1;
            }
            *p += 1;
            Ok(J::Str(String::from_utf8_lossy(&s).into_owned()))
        }
        b't' => {
            *p += 4;
            Ok(J::Bool(true))
        }
        b'f' => {
            *p += 5;
            Ok(J::Bool(false))
        }
        b'n' => {
            *p += 4;
            Ok(J::Null)
        }
        _ => {
            let st = *p;
            while *p < b.len() && (b[*p] == b'-' || b[*p] == b'+' || b[*p] == b'.' || b[*p] == b'e' || b[*p] == b'E' || b[*p].is_ascii_digit()) {
                *p += 1;
            }
            let t = std::str::from_utf8(&b[st..*p]).map_err(|e| e.to_string())?;
            if let Ok(i) = t.parse::<i128>() {
                Ok(J::Int(i))
            } else {
                t.parse::<f64>().map(J::Num).map_err(|e| format!("{} at {}", e, st))
            }
        }
    }
}
