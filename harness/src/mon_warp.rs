//! `warp` (C06): ratio changes produce a continuous, forward-only time warp.
//!
//! M-IDX: the input is the index signal x[n] = n+1, so every output value is (1 +) the
//! input-time instant at which that frame was evaluated.  FastFixed* reproduce linear
//! functions exactly (degree >= 1; Nearest gives floor); SincFixed* are built around the
//! probing interpolator (probe.rs).  The reference model supplies (t_old, t_new, ramp) for
//! every processing call, including several setter calls between two processing calls.

use crate::any::AnyRes;
use crate::cfg::*;
use crate::json::J;
use crate::mon::*;
use crate::mon_hist::profile_by_name;
use crate::probe::{Probe, ProbeStats};
use crate::run::*;
use crate::sig::Sig;
use std::sync::atomic::Ordering::Relaxed;
use std::sync::Arc;

pub struct Warp;

fn ulp(x: f64) -> f64 {
    let x = x.abs().max(f64::MIN_POSITIVE);
    f64::from_bits(x.to_bits() + 1) - x
}

pub fn build_probed(cfg: &Cfg, check_contig: bool) -> Result<(Runner<f64>, Option<Arc<ProbeStats>>), String> {
    build_probed_via(cfg, check_contig, false)
}

/// `boxed`: the instance is driven through `Box<dyn VecResampler<f64>>`
pub fn build_probed_via(cfg: &Cfg, check_contig: bool, boxed: bool) -> Result<(Runner<f64>, Option<Arc<ProbeStats>>), String> {
    let (r, stats) = if cfg.kind.is_sinc() {
        let (p, stats) = Probe::<f64>::new(cfg.flen(), cfg.oversampling, check_contig);
        (AnyRes::<f64>::build_with(cfg, Box::new(p)).map_err(|e| format!("{}", e))?, Some(stats))
    } else {
        (AnyRes::<f64>::build(cfg).map_err(|e| format!("{}", e))?, None)
    };
    if boxed {
        Ok((Runner::new(cfg, Box::new(Boxed(r.boxed())), Sig::index()), stats))
    } else {
        Ok((Runner::new(cfg, Box::new(r), Sig::index()), stats))
    }
}

impl Monitor for Warp {
    fn name(&self) -> &'static str {
        "warp"
    }
    fn budget(&self, ctx: &Ctx) -> u64 {
        if ctx.tier == Tier::Quick {
            20_000
        } else {
            400_000
        }
    }
    fn case(&self, ctx: &Ctx, idx: u64, st: &mut Stats) -> CaseResult {
        let mut rng = ctx.rng_for(idx);
        let mut gp = profile_by_name(&ctx.profile).with_kinds(&ASYNC_KINDS);
        gp.max_channels = 1;
        let mut cfg = gen_cfg(&mut rng, &gp);
        cfg.channels = 1;
        if rng.chance(0.6) && cfg.max_rel < 1.05 {
            cfg.max_rel = gen_max_rel(&mut rng, gp.max_max_rel).max(1.05);
        }
        if rng.chance(0.25) {
            cfg.chunk = rng.ui(1, 12); // few frames per chunk: ramp overshoot territory
        }
        let mut hp = HistProfile::full(if cfg.chunk <= 12 { 200 } else if cfg.chunk <= 64 { 60 } else { 30 });
        hp.allow_partial = false;
        hp.allow_vecs = true;
        hp.mask_mode = Some(MaskMode::None);
        hp.ratio_weight = *rng.pick(&[0.2, 0.35, 0.5]);
        let mut ops = gen_history(&mut rng, &cfg, &hp);
        // 10 %: through the object-safe wrapper (no reset / set_chunk_size there)
        let boxed = rng.chance(0.1);
        if boxed {
            ops.retain(|o| !matches!(o, Op::Reset | Op::SetChunk(_)));
        }
        let desc = J::obj().with("sample", J::s("f64")).with("cfg", cfg.json()).with("signal", J::s("index x[n]=n+1")).with("through_boxed_vecresampler", J::b(boxed)).with("ops", ops_json(&ops));
        set_desc(&desc);
        let mut cr = CaseResult { desc, ..Default::default() };
        if ctx.describe {
            return cr;
        }
        let (mut run, pstats) = match build_probed_via(&cfg, true, boxed) {
            Ok(x) => x,
            Err(e) => {
                cr.inconclusive = Some(e);
                return cr;
            }
        };
        run.check_alloc = false;
        let nearest = (cfg.kind.is_sinc() && cfg.interp == Interp::Nearest) || (cfg.kind.is_fast() && cfg.degree == Deg::Nearest);
        let quantum = if !nearest {
            0.0
        } else if cfg.kind.is_sinc() {
            1.0 / cfg.oversampling as f64
        } else {
            1.0
        };
        let start_thr = if cfg.kind.is_sinc() { 1.5 } else { 4.0 };
        let mut started = false;
        let mut prev: Option<f64> = None; // previous instant (value domain: tau+1)
        let mut viol: Option<(String, String)> = None;
        let mut spacings = 0u64;
        let mut ramp_calls = 0u64;
        let mut step_calls = 0u64;
        // constant-stretch anchor for the Nearest consistency check
        let mut anchor: Option<(f64, f64, u64)> = None; // (value, t, frames since)
        let mut prev_noncontig = 0u64;
        let mut noncontig_in_call = 0u64;
        let mut carry_stale_tol = 0.0f64;
        'ops: for (k, op) in ops.iter().enumerate() {
            let (t_old, t_new) = (1.0 / run.model.cur, 1.0 / run.model.tgt);
            let ramp = run.model.cur != run.model.tgt;
            let supplied_before = run.pos;
            let so = run.step(op);
            match op {
                Op::Reset => {
                    run.pos = 0;
                    started = false;
                    prev = None;
                    anchor = None;
                    continue;
                }
                Op::Proc { .. } => {}
                _ => {
                    anchor = None;
                    continue;
                }
            }
            if so.res.is_err() {
                break;
            }
            if ramp {
                ramp_calls += 1;
                anchor = None;
            } else {
                step_calls += 1;
            }
            let mut noncontig_now = 0;
            if let Some(ps) = &pstats {
                let nc = ps.noncontig.load(Relaxed);
                noncontig_now = nc - prev_noncontig;
                st.add("noncontiguous_windows_seen", noncontig_now as f64);
                prev_noncontig = nc;
            }
            noncontig_in_call = noncontig_now;
            // A window that reaches one frame past the supplied data with a weight at the level of the
            // accumulated position rounding (closed-form input demand vs. accumulated position) is not
            // an effective stale read: widen the tolerance of this call by offset * N * rounding.
            let m_idx = (so.fed.max(cfg.chunk) + 3 * cfg.flen() + 16) as f64;
            let stale_tol_now = if noncontig_now > 0 {
                crate::probe::STALE_OFFSET * cfg.oversampling as f64 * 16.0 * (so.out[0].len() as f64 + 64.0) * ulp(m_idx)
            } else {
                0.0
            };
            let stale_tol = stale_tol_now.max(carry_stale_tol);
            carry_stale_tol = stale_tol_now;
            let supplied = supplied_before + so.fed as u64;
            let (lo, hi) = (t_old.min(t_new), t_old.max(t_new));
            let dir = t_new - t_old;
            let mut last_d: Option<f64> = None;
            for (j, y) in so.out[0].iter().enumerate() {
                let y = *y;
                if !y.is_finite() || y < -1.0 || y > supplied as f64 + 2.0 {
                    viol = Some(("stale_or_unsupplied_input".into(), format!("op {} frame {}: output {:e} is not an input-time instant inside the {} frames supplied so far: it was built from a window that is not a contiguous run of supplied input (stale, skipped or not yet supplied storage)", k, j, y, supplied)));
                    break 'ops;
                }
                if !started {
                    if y >= start_thr {
                        started = true;
                        prev = Some(y);
                        anchor = None;
                    }
                    continue;
                }
                let tol = 1e-9f64.max(256.0 * ulp(y)) + stale_tol;
                // an output instant can not lie beyond the last supplied frame
                if y - 1.0 > (supplied as f64 - 1.0) + tol {
                    viol = Some(("instant_beyond_supplied_input".into(), format!("op {} frame {}: evaluated at input time {} but only {} frames were supplied", k, j, y - 1.0, supplied)));
                    break 'ops;
                }
                if let Some(p) = prev {
                    let d = y - p;
                    spacings += 1;
                    if (!nearest && d <= 0.0) || (nearest && d < -tol) {
                        viol = Some(("not_increasing".into(), format!("op {} frame {}: instants {} -> {} (t_old {}, t_new {}, ramp {})", k, j, p - 1.0, y - 1.0, t_old, t_new, ramp)));
                        break 'ops;
                    }
                    if d < lo - quantum - tol || d > hi + quantum + tol {
                        viol = Some((
                            "spacing_outside_interval".into(),
                            format!("op {} frame {}: spacing {} not in [{}, {}] (1/old ratio {}, 1/new ratio {}, ramp {}, quantum {})", k, j, d, lo, hi, t_old, t_new, ramp, quantum),
                        ));
                        break 'ops;
                    }
                    if !nearest {
                        st.max("worst_spacing_excess_over_tol", ((lo - d).max(d - hi)) / tol);
                        if !ramp && (d - t_new).abs() > tol {
                            viol = Some(("step_not_immediate".into(), format!("op {} frame {}: spacing {} != 1/ratio {} in a chunk without ramp", k, j, d, t_new)));
                            break 'ops;
                        }
                        if ramp {
                            if let Some(ld) = last_d {
                                if (dir > 0.0 && d < ld - tol) || (dir < 0.0 && d > ld + tol) {
                                    viol = Some(("ramp_not_monotone".into(), format!("op {} frame {}: spacing {} after {} while ramping from {} to {}", k, j, d, ld, t_old, t_new)));
                                    break 'ops;
                                }
                            }
                        }
                    } else if !ramp {
                        // Nearest: consistent with tau_0 + n*t on the quantisation grid
                        match &mut anchor {
                            Some((a, t, n)) if *t == t_new => {
                                *n += 1;
                                let pred = *a + *n as f64 * *t;
                                if (y - pred).abs() > quantum + tol + 1e-9 * *n as f64 {
                                    viol = Some(("nearest_inconsistent".into(), format!("op {} frame {}: quantised instant {} but {} frames of spacing {} after {} predict {}", k, j, y - 1.0, n, t, *a - 1.0, pred - 1.0)));
                                    break 'ops;
                                }
                            }
                            _ => anchor = Some((y, t_new, 0)),
                        }
                    }
                    last_d = Some(d);
                }
                prev = Some(y);
            }
            if ramp && !nearest {
                // (the chunk after a ramp must run at 1/new: checked by step_not_immediate there)
            }
        }
        if let Some(ps) = &pstats {
            st.add("probe_calls", ps.calls.load(Relaxed) as f64);
            let m = ps.min_tail_margin.load(Relaxed);
            if m != i64::MAX {
                st.min("probe_min_tail_margin_frames", m as f64);
            }
            if ps.out_of_range.load(Relaxed) > 0 && viol.is_none() {
                viol = Some(("window_out_of_range".into(), format!("{} interpolation window(s) violate index + sinc_len < buffer length (the real kernels assert this)", ps.out_of_range.load(Relaxed))));
            }
            if ps.bad_subindex.load(Relaxed) > 0 && viol.is_none() {
                viol = Some(("subindex_out_of_range".into(), format!("{} call(s) with subindex >= oversampling factor", ps.bad_subindex.load(Relaxed))));
            }
        }
        if let Some((c, d)) = viol {
            if noncontig_in_call > 0 && c != "stale_or_unsupplied_input" {
                cr.viols.push(Viol::new("C06", "stale_or_unsupplied_input", format!("{} [{} interpolation window(s) of this call were not a contiguous run of supplied input and carried weight; observed as: {}]", d, noncontig_in_call, c)));
            } else {
                cr.viols.push(Viol::new("C06", &c, d));
            }
        } else {
            st.add("noncontiguous_windows_without_effect", prev_noncontig as f64);
        }
        st.add("spacings_checked", spacings as f64);
        st.add("ramped_chunks", ramp_calls as f64);
        st.add("stepped_or_constant_chunks", step_calls as f64);
        st.add("ratio_changes", ops.iter().filter(|o| matches!(o, Op::SetRatio { .. })).count() as f64);
        st.add(&format!("cases.{}", cfg.kind.name()), 1.0);
        st.add(if nearest { "nearest_cases" } else { "interpolating_cases" }, 1.0);
        if run.findings.iter().any(|f| f.prop == "C03" || f.prop == "C04") && cr.viols.is_empty() {
            cr.inconclusive = Some(format!("C03/C04 event in this history: {}", run.findings[0].detail));
        }
        cr.class = if spacings > 0 { Some(format!("{}|{}", cfg.class(), ops_shape(&ops))) } else { None };
        cr
    }
}
