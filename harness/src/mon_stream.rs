//! Stream-level monitors at constant ratio:
//!   chunk (C05)  same stream through two chunkings / variants
//!   acct  (C07)  running frame totals against r * consumed
//!   poly  (C08)  polynomial exactness of the polynomial resamplers

use crate::any::AnyRes;
use crate::cfg::*;
use crate::json::J;
use crate::mon::*;
use crate::mon_hist::profile_by_name;
use crate::mon_warp::build_probed;
use crate::rng::Rng;
use crate::run::*;
use crate::sig::{Sig, SigKind};

fn exact_op() -> Op {
    Op::Proc { path: Path::Exact, slack_in: 0, slack_out: 0, mask: None, empty_inactive: false }
}

/// Run `run` until at least `n_in` frames were consumed; optional random set_chunk_size schedule.
/// Returns channel-0 output stream.  `pre` operations are executed first.
fn stream<T: Smp>(run: &mut Runner<T>, n_in: u64, sched: Option<&mut Rng>, max_calls: usize) -> Result<Vec<T>, String> {
    let mut out: Vec<T> = Vec::new();
    let op = exact_op();
    let mut sched = sched;
    let mut calls = 0;
    while run.pos < n_in && calls < max_calls {
        if let Some(r) = sched.as_deref_mut() {
            if r.chance(0.3) {
                let n = match r.ui(0, 3) {
                    0 => 1,
                    1 => run.cfg.chunk,
                    _ => r.ui(1, run.cfg.chunk),
                };
                run.step(&Op::SetChunk(n));
            }
        }
        let so = match crate::mon::guarded(|| run.step(&op)) {
            Ok(so) => so,
            Err(p) => return Err(format!("panic: {}", p)),
        };
        calls += 1;
        match so.res {
            Ok(_) => out.extend_from_slice(&so.out[0]),
            Err(e) => return Err(e),
        }
        if so.fed == 0 && so.out[0].is_empty() && calls > 100_000 {
            break;
        }
    }
    Ok(out)
}

/// like `stream`, every call with buffers longer than required: input slices carry up to `slack_max`
/// further frames (NaN poison, a caller's look-ahead data in real use), output buffers up to 17
fn stream_slack<T: Smp>(run: &mut Runner<T>, n_in: u64, rng: &mut Rng, slack_max: usize, max_calls: usize) -> Result<Vec<T>, String> {
    let mut out: Vec<T> = Vec::new();
    let mut calls = 0;
    while run.pos < n_in && calls < max_calls {
        let op = Op::Proc { path: Path::Slack, slack_in: if rng.chance(0.2) { 0 } else { rng.ui(1, slack_max.max(1)) }, slack_out: rng.ui(0, 17), mask: None, empty_inactive: false };
        let so = match crate::mon::guarded(|| run.step(&op)) {
            Ok(so) => so,
            Err(p) => return Err(format!("panic: {}", p)),
        };
        calls += 1;
        match so.res {
            Ok(_) => out.extend_from_slice(&so.out[0]),
            Err(e) => return Err(e),
        }
        if so.fed == 0 && so.out[0].is_empty() && calls > 100_000 {
            break;
        }
    }
    Ok(out)
}

/// like `stream`, with ratio changes (value, ramp) applied before the given call numbers
fn stream_sched<T: Smp>(run: &mut Runner<T>, n_in: u64, schedule: &[(usize, f64, bool)], tspec: &mut Vec<f64>) -> Result<Vec<T>, String> {
    let mut out: Vec<T> = Vec::new();
    tspec.clear();
    let op = exact_op();
    let mut calls = 0usize;
    while run.pos < n_in && calls < 3_000_000 {
        for (k, v, ramp) in schedule {
            if *k == calls {
                run.step(&Op::SetRatio { v: *v, ramp: *ramp, rel: false });
            }
        }
        // spacing every frame of this call must have: 1/ratio if no ramp is pending, unspecified (NaN) otherwise
        let t = if run.model.cur == run.model.tgt { 1.0 / run.model.cur } else { f64::NAN };
        let so = run.step(&op);
        calls += 1;
        match so.res {
            Ok(_) => {
                out.extend_from_slice(&so.out[0]);
                tspec.extend(std::iter::repeat(t).take(so.out[0].len()));
            }
            Err(e) => return Err(e),
        }
    }
    Ok(out)
}

fn ulp(x: f64) -> f64 {
    let x = x.abs().max(f64::MIN_POSITIVE);
    f64::from_bits(x.to_bits() + 1) - x
}

// ==========================================================================================
// C05

pub struct Chunking;

#[derive(Clone, Copy, Debug, PartialEq)]
enum TwinKind {
    ChunkSizes,
    InVsOut,
    Schedule,
    FftSameBlock,
    /// FixedIn with stepped ratio changes at its chunk boundaries vs FixedOut(chunk 1) switching at the same output frame
    RatioSteps,
    /// the same instance configuration fed from exactly sized buffers vs from longer ones
    SlackBuffers,
}

impl Chunking {
    fn case_t<T: Smp>(&self, ctx: &Ctx, idx: u64, st: &mut Stats) -> CaseResult {
        let mut rng = ctx.rng_for(idx);
        let mut gp = profile_by_name(&ctx.profile);
        gp.max_channels = 1;
        let mut a = gen_cfg(&mut rng, &gp);
        a.channels = 1;
        let mut b = a.clone();
        let twin;
        if rng.chance(0.12) {
            twin = TwinKind::SlackBuffers;
        } else if a.kind.is_async() {
            let opts: &[TwinKind] = if a.kind.is_sinc() { &[TwinKind::ChunkSizes, TwinKind::InVsOut, TwinKind::Schedule, TwinKind::RatioSteps] } else { &[TwinKind::ChunkSizes, TwinKind::InVsOut, TwinKind::RatioSteps] };
            twin = if a.max_rel > 1.05 { *rng.pick(opts) } else { *rng.pick(&opts[..opts.len() - 1]) };
            match twin {
                TwinKind::ChunkSizes => b.chunk = gen_chunk(&mut rng, gp.max_chunk),
                TwinKind::InVsOut => {
                    b.kind = match a.kind {
                        Kind::SincIn => Kind::SincOut,
                        Kind::SincOut => Kind::SincIn,
                        Kind::FastIn => Kind::FastOut,
                        _ => Kind::FastIn,
                    };
                    if rng.bool() {
                        b.chunk = gen_chunk(&mut rng, gp.max_chunk);
                    }
                }
                TwinKind::RatioSteps => {
                    // a: the FixedIn variant, b: the FixedOut variant producing one frame per call
                    a.kind = if a.kind.is_sinc() { Kind::SincIn } else { Kind::FastIn };
                    if a.interp == Interp::Nearest {
                        a.interp = Interp::Linear;
                    }
                    if a.degree == Deg::Nearest {
                        a.degree = Deg::Linear;
                    }
                    b = a.clone();
                    b.kind = if a.kind.is_sinc() { Kind::SincOut } else { Kind::FastOut };
                    b.chunk = 1;
                }
                _ => {}
            }
            // keep buffers affordable for the twin too
            let cap = 1.5e5;
            while (b.chunk as f64) * b.ratio.max(1.0 / b.ratio) * b.max_rel > cap && b.chunk > 1 {
                b.chunk /= 2;
            }
        } else {
            twin = TwinKind::FftSameBlock;
            // a twin of another variant / another (chunk, sub_chunks) pair resolving to the same FFT block
            let (fi, fo) = a.fft_sizes();
            let mut found = false;
            for _ in 0..40 {
                let mut c = a.clone();
                c.kind = *rng.pick(&[Kind::FftIn, Kind::FftOut, Kind::FftInOut]);
                match c.kind {
                    Kind::FftInOut => c.chunk = fi,
                    Kind::FftIn => {
                        c.sub_chunks = rng.ui(1, 6);
                        c.chunk = fi * c.sub_chunks + if rng.bool() { 0 } else { rng.ui(0, c.sub_chunks - 1) };
                    }
                    _ => {
                        c.sub_chunks = rng.ui(1, 6);
                        c.chunk = fo * c.sub_chunks + if rng.bool() { 0 } else { rng.ui(0, c.sub_chunks - 1) };
                    }
                }
                if c.chunk >= 1 && c.fft_sizes() == (fi, fo) && c.chunk <= 200_000 {
                    b = c;
                    found = true;
                    break;
                }
            }
            if !found {
                b = a.clone();
            }
        }
        // optional common non-ramped ratio set before the first call (constant ratio != original)
        let pre_ratio = if a.kind.is_async() && a.max_rel > 1.0 && rng.chance(0.3) { Some(gen_in_range_ratio(&mut rng, &a)) } else { None };
        let s1 = rng.next();
        let sched_seed = rng.next();
        let r_eff = pre_ratio.unwrap_or(a.r());
        let n_in = {
            let want = rng.logi(2_000, 40_000) as f64;
            // bound the output volume too
            (want.min(400_000.0 / r_eff.max(1.0))).max(500.0) as u64
        };
        let desc = J::obj()
            .with("sample", J::s(T::NAME))
            .with("twin", J::s(&format!("{:?}", twin)))
            .with("a", a.json())
            .with("b", b.json())
            .with("set_ratio_before_first_call", pre_ratio.map(J::f).unwrap_or(J::Null))
            .with("input_frames", J::Int(n_in as i128))
            .with("signal", J::s("noise"))
            .with("signal_seed", J::Int(s1 as i128));
        set_desc(&desc);
        let mut cr = CaseResult { desc, ..Default::default() };
        if ctx.describe {
            return cr;
        }
        let mk = |c: &Cfg| Runner::<T>::fresh(c, Sig::noise(s1));
        let (mut ra, mut rb) = match (mk(&a), Runner::<T>::fresh_direct(&b, Sig::noise(s1))) {
            (Ok(x), Ok(y)) => (x, y),
            _ => {
                cr.inconclusive = Some("constructor".into());
                return cr;
            }
        };
        ra.check_alloc = false;
        rb.check_alloc = false;
        // 10 %: twin a has had an earlier life and a reset(); twin b is fresh
        if rng.chance(0.1) {
            earlier_life(&mut ra, &mut Rng::new(sched_seed ^ 0x11fe));
            st.add("twin_a_with_earlier_life_and_reset", 1.0);
        }
        // 30 %: set_resample_ratio_relative(1.0) on twin a before anything else - by the documentation a no-op
        if pre_ratio.is_none() && sched_seed % 10 < 3 {
            noop_relative(&mut ra);
        }
        if let Some(v) = pre_ratio {
            ra.step(&Op::SetRatio { v, ramp: false, rel: false });
            rb.step(&Op::SetRatio { v, ramp: false, rel: false });
        }
        let mut srng = Rng::new(sched_seed);
        if twin == TwinKind::RatioSteps {
            return self.ratio_steps(&mut cr, st, &a, &b, ra, rb, n_in.min(12_000), &mut srng);
        }
        let oa = stream(&mut ra, n_in, None, 2_000_000);
        let ob = if twin == TwinKind::SlackBuffers {
            // up to two further FFT blocks / chunks of look-ahead in the input slices
            let extra = if b.kind.is_fft() { 2 * b.fft_sizes().0 + 8 } else { 2 * b.chunk + 8 };
            stream_slack(&mut rb, n_in, &mut srng, extra.min(20_000), 2_000_000)
        } else {
            stream(&mut rb, n_in, if twin == TwinKind::Schedule { Some(&mut srng) } else { None }, 2_000_000)
        };
        let (oa, ob) = match (oa, ob) {
            (Ok(x), Ok(y)) => (x, y),
            (Ok(_), Err(e)) | (Err(e), Ok(_)) if !e.contains("Tried to use sinc subindex") => {
                // the same stream completes under one chunking / buffer sizing and fails under the other
                cr.viols.push(Viol::new("C05", "fails_under_one_chunking", format!("twin {:?}: one run completed, the other ended with {}", twin, e)));
                return cr;
            }
            (x, y) => {
                cr.inconclusive = Some(format!("processing error {:?} {:?}", x.err(), y.err()));
                return cr;
            }
        };
        let n = oa.len().min(ob.len());
        // frame totals must agree within the C07 constant
        {
            let l = a.flen() as f64;
            let r = r_eff;
            let bound = if a.kind.is_async() { 2.0 * (r * (l + 1.0 / r + 3.0) + 3.0) } else { 2.0 * a.fft_sizes().1 as f64 + 2.0 };
            let da = oa.len() as f64 - r * ra.pos as f64;
            let db = ob.len() as f64 - r * rb.pos as f64;
            if (da - db).abs() > bound {
                cr.viols.push(Viol::new("C05", "frame_totals_disagree", format!("out-r*in: {} (a) vs {} (b), allowed difference {}", da, db, bound)));
            }
        }
        let nearest = (a.kind.is_sinc() && a.interp == Interp::Nearest) || (a.kind.is_fast() && a.degree == Deg::Nearest);
        // Nearest modes: where the two runs quantise a position differently (a floor/round
        // decided by accumulated rounding) the frame is excluded from the value comparison;
        // the instants themselves come from an index-signal run of both twins.
        let (ia, ib) = if nearest && a.kind.is_async() {
            let run_idx = |c: &Cfg, sched: bool| -> Option<Vec<f64>> {
                let (mut r, _) = build_probed(c, false).ok()?;
                r.check_alloc = false;
                if let Some(v) = pre_ratio {
                    r.step(&Op::SetRatio { v, ramp: false, rel: false });
                }
                let mut sr = Rng::new(sched_seed);
                stream(&mut r, n_in, if sched { Some(&mut sr) } else { None }, 2_000_000).ok()
            };
            (run_idx(&a, false), run_idx(&b, twin == TwinKind::Schedule))
        } else {
            (None, None)
        };
        // true (unquantised) instants: the same configuration with Linear interpolation / degree
        let true_inst: Option<Vec<f64>> = if ia.is_some() {
            let mut c = a.clone();
            c.interp = Interp::Linear;
            c.degree = Deg::Linear;
            let mut r = build_probed(&c, false).ok().map(|x| x.0);
            r.as_mut().and_then(|r| {
                r.check_alloc = false;
                if let Some(v) = pre_ratio {
                    r.step(&Op::SetRatio { v, ramp: false, rel: false });
                }
                stream(r, n_in, None, 2_000_000).ok()
            })
        } else {
            None
        };
        let quantum = if a.kind.is_sinc() { 1.0 / a.oversampling as f64 } else { 1.0 };
        let peak = 1.0f64;
        let m_idx = (a.chunk.max(b.chunk) as f64) * (1.0f64).max(1.0 / r_eff) + 3.0 * a.flen() as f64 + 16.0;
        let mut worst = 0.0f64;
        let mut excluded = 0u64;
        let mut compared = 0u64;
        for j in 0..n {
            let (x, y) = (oa[j].f64(), ob[j].f64());
            if a.kind.is_fft() {
                if oa[j].bits() != ob[j].bits() {
                    cr.viols.push(Viol::new("C05", "fft_twins_differ", format!("frame {}: {:e} vs {:e} (same FFT block {:?}, must be bit-identical)", j, x, y, a.fft_sizes())));
                    break;
                }
                compared += 1;
                continue;
            }
            if let (Some(ia), Some(ib)) = (&ia, &ib) {
                if j < ia.len() && j < ib.len() && ia[j] != ib[j] {
                    // legitimate only if the true instant lies within rounding of a decision boundary
                    // (sinc Nearest rounds to the grid: boundary at half steps; polynomial Nearest floors: boundary at integers)
                    let ambiguous = match &true_inst {
                        Some(t) if j < t.len() => {
                            let tau = t[j] - 1.0;
                            let x = if a.kind.is_sinc() { tau * a.oversampling as f64 - 0.5 } else { tau };
                            // the two chunkings accumulate position rounding differently (same model as the value
                            // tolerance below), scaled to grid units
                            let scale = if a.kind.is_sinc() { a.oversampling as f64 } else { 1.0 };
                            (x - x.round()).abs() < 1.1e-5 + scale * 16.0 * (j as f64 + 64.0) * ulp(m_idx)
                        }
                        _ => false,
                    };
                    if ambiguous && (ia[j] - ib[j]).abs() <= quantum * 1.000001 + 1e-9 {
                        excluded += 1;
                        continue;
                    }
                    cr.viols.push(Viol::new("C05", "instants_differ", format!("frame {}: evaluated at input time {} (a) vs {} (b)", j, ia[j] - 1.0, ib[j] - 1.0)));
                    break;
                }
            }
            // accumulated position rounding (worst case linear in j) times the largest slope,
            // plus arithmetic rounding of the interpolation itself
            let tol = 16.0 * peak * (j as f64 + 64.0) * ulp(m_idx) + 64.0 * T::EPS * peak * 4.0;
            let d = (x - y).abs();
            compared += 1;
            if d / tol > worst {
                worst = d / tol;
            }
            if d > tol {
                cr.viols.push(Viol::new(
                    "C05",
                    "streams_differ",
                    format!("output frame {} of the common prefix ({} frames): {:e} (a) vs {:e} (b), |diff| {:e} > tolerance {:e}", j, n, x, y, d, tol),
                ));
                break;
            }
        }
        st.add("frames_compared", compared as f64);
        st.add("nearest_frames_excluded_as_ambiguous", excluded as f64);
        st.add(&format!("twin.{:?}", twin), 1.0);
        st.add(&format!("cases.{}", a.kind.name()), 1.0);
        st.max(&format!("worst_diff_over_tolerance.{}", T::NAME), worst);
        if ra.findings.iter().chain(rb.findings.iter()).any(|f| f.prop == "C03") && cr.viols.is_empty() {
            cr.inconclusive = Some("C03 event".into());
        }
        cr.class = if compared > 0 && (a.chunk != b.chunk || a.kind != b.kind || twin == TwinKind::Schedule || twin == TwinKind::SlackBuffers || a.sub_chunks != b.sub_chunks) {
            Some(format!("{}|{:?}|{}|{}", T::NAME, twin, a.class(), b.class()))
        } else {
            None
        };
        cr
    }
}

impl Chunking {
    #[allow(clippy::too_many_arguments)]
    fn ratio_steps<T: Smp>(&self, cr: &mut CaseResult, st: &mut Stats, a: &Cfg, b: &Cfg, mut ra: Runner<T>, mut rb: Runner<T>, n_in: u64, rng: &mut Rng) -> CaseResult {
        let op = exact_op();
        // a: FixedIn; up to 4 stepped (non-ramped) ratio changes before random calls
        let est_calls = (n_in as usize / a.chunk.max(1)).max(2);
        let n_steps = rng.ui(1, 4);
        let mut steps: Vec<(usize, f64)> = (0..n_steps).map(|_| (rng.ui(1, est_calls - 1), gen_in_range_ratio(rng, a))).collect();
        steps.sort_by(|x, y| x.0.cmp(&y.0));
        steps.dedup_by_key(|x| x.0);
        let mut oa: Vec<T> = Vec::new();
        let mut switch_at: Vec<(usize, f64)> = Vec::new(); // (output frames produced so far, new ratio)
        let mut call = 0usize;
        while ra.pos < n_in && call < 200_000 {
            for (k, v) in &steps {
                if *k == call {
                    ra.step(&Op::SetRatio { v: *v, ramp: false, rel: false });
                    switch_at.push((oa.len(), *v));
                }
            }
            let so = ra.step(&op);
            call += 1;
            match so.res {
                Ok(_) => oa.extend_from_slice(&so.out[0]),
                Err(e) => {
                    cr.inconclusive = Some(e);
                    return std::mem::take(cr);
                }
            }
        }
        // b: FixedOut, one frame per call, switching at the same output frame
        let mut ob: Vec<T> = Vec::with_capacity(oa.len());
        let mut si = 0;
        let mut guard = 0usize;
        while ob.len() < oa.len() && guard < 3_000_000 {
            while si < switch_at.len() && switch_at[si].0 == ob.len() {
                rb.step(&Op::SetRatio { v: switch_at[si].1, ramp: false, rel: false });
                si += 1;
            }
            let so = rb.step(&op);
            guard += 1;
            match so.res {
                Ok(_) => ob.extend_from_slice(&so.out[0]),
                Err(e) => {
                    cr.inconclusive = Some(e);
                    return std::mem::take(cr);
                }
            }
        }
        let n = oa.len().min(ob.len());
        let r_min = a.lo();
        let m_idx = (a.chunk as f64).max(1.0 / r_min) + 3.0 * a.flen() as f64 + 16.0 + a.max_rel / a.ratio;
        let mut worst = 0.0f64;
        let mut compared = 0u64;
        for j in 0..n {
            let (x, y) = (oa[j].f64(), ob[j].f64());
            let tol = 16.0 * (j as f64 + 64.0) * ulp(m_idx) * (1.0 + 1.0 / r_min.min(1.0)) + 64.0 * T::EPS * 4.0;
            let d = (x - y).abs();
            compared += 1;
            worst = worst.max(d / tol);
            if d > tol {
                cr.viols.push(Viol::new(
                    "C05",
                    "streams_differ_across_ratio_steps",
                    format!("output frame {} ({} ratio step(s) at output frames {:?}): {:e} (FixedIn, chunk {}) vs {:e} (FixedOut, chunk 1), |diff| {:e} > tolerance {:e}", j, switch_at.len(), switch_at.iter().map(|s| s.0).collect::<Vec<_>>(), x, a.chunk, y, d, tol),
                ));
                break;
            }
        }
        st.add("frames_compared", compared as f64);
        st.add("twin.RatioSteps", 1.0);
        st.add("ratio_steps_applied", switch_at.len() as f64);
        st.add(&format!("cases.{}", a.kind.name()), 1.0);
        st.max(&format!("worst_diff_over_tolerance.ratio_steps.{}", T::NAME), worst);
        let _ = b;
        if ra.findings.iter().chain(rb.findings.iter()).any(|f| f.prop == "C03") && cr.viols.is_empty() {
            cr.inconclusive = Some("C03 event".into());
        }
        cr.class = if compared > 0 { Some(format!("{}|RatioSteps|{}|{}", T::NAME, a.class(), switch_at.len())) } else { None };
        std::mem::take(cr)
    }
}

impl Monitor for Chunking {
    fn name(&self) -> &'static str {
        "chunk"
    }
    fn budget(&self, ctx: &Ctx) -> u64 {
        if ctx.tier == Tier::Quick {
            3_000
        } else {
            60_000
        }
    }
    fn case(&self, ctx: &Ctx, idx: u64, st: &mut Stats) -> CaseResult {
        let mut r = Rng::derive(&[ctx.seed, idx, 0x7e57]);
        if r.chance(0.3) {
            self.case_t::<f32>(ctx, idx, st)
        } else {
            self.case_t::<f64>(ctx, idx, st)
        }
    }
}

// ==========================================================================================
// C07

pub struct Acct;

/// the ratio setters of an accounting stream go where its processing calls go: through
/// `&mut dyn VecResampler` when the configuration says so
fn set_abs<T: Smp>(r: &mut AnyRes<T>, cfg: &Cfg, v: f64, ramp: bool) -> rubato::ResampleResult<()> {
    if cfg.via_dyn {
        r.as_dyn().set_resample_ratio(v, ramp)
    } else {
        r.set_resample_ratio(v, ramp)
    }
}
fn set_rel<T: Smp>(r: &mut AnyRes<T>, cfg: &Cfg, v: f64, ramp: bool) -> rubato::ResampleResult<()> {
    if cfg.via_dyn {
        r.as_dyn().set_resample_ratio_relative(v, ramp)
    } else {
        r.set_resample_ratio_relative(v, ramp)
    }
}

impl Acct {
    fn case_t<T: Smp>(&self, ctx: &Ctx, idx: u64, st: &mut Stats) -> CaseResult {
        let mut rng = ctx.rng_for(idx);
        let mut gp = profile_by_name(&ctx.profile);
        gp.max_channels = 1;
        gp.max_sinc_len = 128;
        gp.max_oversampling = 64;
        let mut cfg = gen_cfg(&mut rng, &gp);
        cfg.channels = 1;
        if rng.chance(0.35) {
            cfg.chunk = rng.ui(1, 4); // very many tiny chunks
            if cfg.kind.is_fft() && !rng.chance(0.1) {
                cfg.sub_chunks = rng.ui(1, cfg.chunk);
            }
        }
        let pre_ratio = if cfg.kind.is_async() && cfg.max_rel > 1.0 && rng.chance(0.3) { Some(gen_in_range_ratio(&mut rng, &cfg)) } else { None };
        let sched = cfg.kind.is_sinc() && rng.chance(0.4);
        // 10 %: reset() somewhere in the stream; the accounting restarts with the stream
        let reset_at: Option<u64> = if rng.chance(0.1) { Some(rng.logi(1, 5000) as u64) } else { None };
        // 15 % of the adjustable cases: the stream starts at original*x1 (relative setter), runs a while, then
        // moves to original*x2 by a second relative call (no ramp); the accounting restarts at the step and
        // must hold at the ratio the documentation promises, original*x2 (relative factors do not compound)
        let detour: Option<(u64, f64, f64)> = if cfg.kind.is_async() && cfg.max_rel > 1.0 && pre_ratio.is_none() && reset_at.is_none() && rng.chance(0.15) {
            let lo = (1.0 / cfg.max_rel).max(0.25);
            let hi = cfg.max_rel.min(4.0);
            Some((rng.logi(1, 400) as u64, rng.uf(lo, hi), if rng.chance(0.3) { 1.0 } else { rng.uf(lo, hi) }))
        } else {
            None
        };
        // 15 %: the stream is driven through the allocating wrappers (process / process_partial), frames
        // counted as the lengths of the returned vectors
        let wrappers = rng.chance(0.15);
        // 20 %: refused setter calls sprinkled over the stream
        let refused = rng.chance(0.2);
        // marathons: a slow drift (a fraction of a frame lost per call) only crosses the constant after
        // ~1e5..1e6 calls, and only when the constant is small (short filter)
        let marathon = rng.chance(0.12);
        // every 8th stream (taken from the case index, no generator draw): bursts of calls whose mask switches
        // the only channel off.  Such a call still consumes its input and reports its frame counts, so the
        // accounting must run on as if the channel had been processed (C07-g1)
        let masked_bursts = idx % 8 == 5 && !wrappers;
        if marathon {
            cfg.chunk = rng.ui(1, 3);
            if cfg.kind.is_sinc() && rng.bool() {
                // short filter = small constant (bound clause); otherwise keep the drawn length (trend clause)
                cfg.sinc_len = 8 * rng.ui(1, 3);
            }
            if cfg.kind.is_fft() {
                cfg.sub_chunks = 1;
            }
        }
        let frames_budget = if marathon {
            if ctx.tier == Tier::Quick { 3_000_000 } else { 24_000_000 }
        } else if ctx.tier == Tier::Quick {
            rng.logi(20_000, 400_000)
        } else {
            rng.logi(50_000, 4_000_000)
        } as u64;
        let max_calls: u64 = match (marathon, ctx.tier == Tier::Quick) {
            (true, true) => 1_200_000,
            (true, false) => 8_000_000,
            (false, true) => 300_000,
            (false, false) => 2_500_000,
        };
        let desc = J::obj()
            .with("sample", J::s(T::NAME))
            .with("cfg", cfg.json())
            .with("set_ratio_before_first_call", pre_ratio.map(J::f).unwrap_or(J::Null))
            .with("set_chunk_size_schedule", J::b(sched))
            .with("reset_after_calls", reset_at.map(|x| J::Int(x as i128)).unwrap_or(J::Null))
            .with("relative_ratio_detour_calls_x1_x2", detour.map(|d| J::Arr(vec![J::Int(d.0 as i128), J::f(d.1), J::f(d.2)])).unwrap_or(J::Null))
            .with("through_allocating_wrappers", J::b(wrappers))
            .with("refused_setter_calls", J::b(refused))
            .with("bursts_of_all_false_mask_calls", J::b(masked_bursts))
            .with("frames_budget", J::Int(frames_budget as i128));
        set_desc(&desc);
        let mut cr = CaseResult { desc, ..Default::default() };
        if ctx.describe {
            return cr;
        }
        let mut r = match AnyRes::<T>::build(&cfg) {
            Ok(r) => r,
            Err(e) => {
                cr.inconclusive = Some(format!("{}", e));
                return cr;
            }
        };
        if let Some(v) = pre_ratio {
            if set_abs(&mut r, &cfg, v, false).is_err() {
                cr.inconclusive = Some("in-range ratio rejected (C12)".into());
                return cr;
            }
        }
        let mut ratio = pre_ratio.unwrap_or(cfg.ratio);
        if let Some((_, x1, _)) = detour {
            if set_rel(&mut r, &cfg, x1, false).is_err() {
                cr.inconclusive = Some("in-range relative ratio rejected (C12)".into());
                return cr;
            }
            ratio = cfg.ratio * x1;
        }
        let wi = r.input_buffer_allocate(true);
        let mut wo = r.output_buffer_allocate(true);
        let (mut tin, mut tout) = (0u64, 0u64);
        let mut calls = 0u64;
        let l = cfg.flen() as f64;
        let mut bound = ratio * (l + 1.0 / ratio + 3.0) + 3.0;
        let (fi, fo) = cfg.fft_sizes();
        if cfg.kind == Kind::FftInOut {
            // block sizes: in = smallest multiple of fs_in/gcd >= requested chunk, in*fs_out == out*fs_in
            let g = gcd(cfg.fs_in, cfg.fs_out);
            let unit = cfg.fs_in / g;
            let want_in = ((cfg.chunk + unit - 1) / unit) * unit;
            let gi = r.input_frames_next();
            let go = r.output_frames_next();
            if gi != want_in || (gi as u128) * (cfg.fs_out as u128) != (go as u128) * (cfg.fs_in as u128) {
                cr.viols.push(Viol::new(
                    "C07",
                    "inout_block_sizes",
                    format!("FftFixedInOut({}->{}, chunk {}): sizes in {} out {}, expected in {} (smallest multiple of {} >= chunk) and in*fs_out == out*fs_in", cfg.fs_in, cfg.fs_out, cfg.chunk, gi, go, want_in, unit),
                ));
            }
        }
        let mut worst = 0.0f64;
        // deviation envelope per block of 16384 calls (trend clause for very slow drifts)
        let mut env: Vec<(f64, f64)> = Vec::new();
        let mut resets_done = 0u64;
        let mut calls_at_restart = 0u64;
        while tin + tout < frames_budget && calls < max_calls {
            if reset_at == Some(calls) && resets_done == 0 {
                r.reset();
                // reset() returns to the construction ratio; half of the streams stay there, the others
                // set the earlier ratio again
                if let Some(v) = pre_ratio {
                    if calls % 2 == 0 {
                        let _ = set_abs(&mut r, &cfg, v, false);
                    } else {
                        ratio = cfg.ratio;
                        bound = ratio * (l + 1.0 / ratio + 3.0) + 3.0;
                    }
                }
                resets_done = 1;
                tin = 0;
                tout = 0;
                env.clear();
                calls_at_restart = calls;
                st.add("streams_restarted_by_reset", 1.0);
            }
            if let Some((at, _, x2)) = detour {
                if calls == at {
                    if set_rel(&mut r, &cfg, x2, false).is_err() {
                        cr.inconclusive = Some("in-range relative ratio rejected (C12)".into());
                        break;
                    }
                    // what is buffered at the step was bounded by the old constant; the new stretch adds its own
                    let r2 = cfg.ratio * x2;
                    bound += r2 * (l + 1.0 / r2 + 3.0) + 3.0;
                    ratio = r2;
                    tin = 0;
                    tout = 0;
                    env.clear();
                    calls_at_restart = calls;
                    st.add("relative_ratio_detours", 1.0);
                }
            }
            // refused setter calls (far outside the permitted interval) must leave the stream alone
            if refused && calls % 7 == 3 && cfg.kind.is_async() {
                let far = cfg.ratio * cfg.max_rel * if calls % 2 == 0 { 4.0 } else { 1.0 / (16.0 * cfg.max_rel * cfg.max_rel) };
                let res = if calls % 3 == 0 { set_rel(&mut r, &cfg, far / cfg.ratio, calls % 5 == 0) } else { set_abs(&mut r, &cfg, far, calls % 5 != 0) };
                if res.is_ok() {
                    cr.inconclusive = Some("out-of-range ratio accepted (C12)".into());
                    break;
                }
                st.add("refused_setter_calls_mid_stream", 1.0);
            }
            if sched && rng.chance(0.2) {
                let n = match rng.ui(0, 3) {
                    0 => 1,
                    1 => cfg.chunk,
                    _ => rng.ui(1, cfg.chunk),
                };
                let _ = r.set_chunk_size(n);
            }
            let res = if wrappers {
                let n = r.input_frames_next();
                let wv: Vec<&[T]> = wi.iter().map(|c| &c[..n]).collect();
                let rr = if calls % 2 == 0 { r.process(&wv, None) } else { r.process_partial(Some(&wv), None) };
                rr.map(|v| (n, v.first().map(|c| c.len()).unwrap_or(0)))
            } else {
                let off = [false];
                let mask: Option<&[bool]> = if masked_bursts && (calls / 5) % 4 == 1 {
                    st.add("calls_with_all_false_mask", 1.0);
                    Some(&off)
                } else {
                    None
                };
                if cfg.via_dyn {
                    r.as_dyn().process_into_buffer(&wi, &mut wo, mask)
                } else {
                    r.process_into_buffer(&wi, &mut wo, mask)
                }
            };
            let (i, o) = match res {
                Ok(x) => x,
                Err(e) => {
                    cr.inconclusive = Some(format!("processing error with allocate-time buffers (C03/C04): {}", crate::any::err_repr(&e)));
                    break;
                }
            };
            tin += i as u64;
            tout += o as u64;
            calls += 1;
            if cfg.kind.is_async() {
                let d = tout as f64 - ratio * tin as f64;
                let b = ((calls - calls_at_restart) >> 14) as usize;
                if env.len() <= b {
                    env.push((d, d));
                } else {
                    let e = &mut env[b];
                    e.0 = e.0.min(d);
                    e.1 = e.1.max(d);
                }
                if d.abs() / bound > worst {
                    worst = d.abs() / bound;
                }
                if d.abs() > bound {
                    cr.viols.push(Viol::new(
                        "C07",
                        "drift",
                        format!("after {} calls: total out {} - ratio {} * total in {} = {} exceeds the constant {:.2}", calls, tout, ratio, tin, d, bound),
                    ));
                    break;
                }
            } else {
                let lhs = tin as i128 * cfg.fs_out as i128 - tout as i128 * cfg.fs_in as i128;
                let lim = fo as i128 * cfg.fs_in as i128;
                let _ = fi;
                let bad = match cfg.kind {
                    Kind::FftInOut => lhs != 0,
                    _ => lhs < 0 || lhs >= lim,
                };
                if bad {
                    cr.viols.push(Viol::new(
                        "C07",
                        "sync_accounting",
                        format!("after {} calls: in {} * fs_out {} - out {} * fs_in {} = {} (must be {} )", calls, tin, cfg.fs_out, tout, cfg.fs_in, lhs, if cfg.kind == Kind::FftInOut { "0".to_string() } else { format!("in [0, {})", lim) }),
                    ));
                    break;
                }
            }
        }
        // end of stream through process_partial(None): every flush call consumes input_frames_next() frames of
        // silence and returns vectors whose length is the number of frames produced
        if wrappers && cfg.kind.is_async() && cr.viols.is_empty() && cr.inconclusive.is_none() {
            for k in 0..32 {
                let n = r.input_frames_next();
                match r.process_partial::<Vec<T>>(None, None) {
                    Ok(v) => {
                        tin += n as u64;
                        tout += v.first().map(|c| c.len()).unwrap_or(0) as u64;
                    }
                    Err(_) => break,
                }
                st.add("flush_calls_accounted", 1.0);
                let d = tout as f64 - ratio * tin as f64;
                if d.abs() > bound {
                    cr.viols.push(Viol::new("C07", "drift", format!("after {} calls and {} process_partial(None) flush calls: total out {} - ratio {} * total in {} = {} exceeds the constant {:.2}", calls, k + 1, tout, ratio, tin, d, bound)));
                    break;
                }
            }
        }
        // trend clause: at constant ratio the deviation is a bounded saw-tooth, so its envelope over the
        // first and the last third of a long stream must coincide up to the saw-tooth amplitude; a shift of
        // both envelope edges in the same direction by more than max(1,r)+1 frames is growth with the
        // length of the stream, long before the property's constant is crossed
        if cfg.kind.is_async() && env.len() >= 9 && cr.viols.is_empty() {
            let third = env.len() / 3;
            let fold = |s: &[(f64, f64)]| s.iter().fold((f64::INFINITY, f64::NEG_INFINITY), |a, e| (a.0.min(e.0), a.1.max(e.1)));
            let first = fold(&env[..third]);
            let last = fold(&env[env.len() - 1 - third..env.len() - 1]);
            let (s_min, s_max) = (last.0 - first.0, last.1 - first.1);
            // measured on the unchanged tree: at most 0.17 of max(1,r)+1 over 9000 streams
            let thr = ratio.max(1.0) + 1.0;
            let shift = if s_min.signum() == s_max.signum() { s_min.abs().min(s_max.abs()) } else { 0.0 };
            st.max("worst_envelope_shift_over_threshold", shift / thr);
            st.add("streams_with_trend_check", 1.0);
            if shift > thr {
                cr.viols.push(Viol::new(
                    "C07",
                    "drift_trend",
                    format!(
                        "over {} calls the envelope of (total out - ratio*total in) moved from [{:.3}, {:.3}] (first third) to [{:.3}, {:.3}] (last third): a shift of {:.3} frames, more than the saw-tooth amplitude max(1,r)+1 = {:.2} can explain; the deviation grows with the length of the stream",
                        calls, first.0, first.1, last.0, last.1, shift, thr
                    ),
                ));
            }
        }
        st.add("process_calls", calls as f64);
        st.add("frames", (tin + tout) as f64);
        st.max("longest_stream_calls", calls as f64);
        st.max("worst_drift_over_constant", worst);
        st.add(&format!("cases.{}", cfg.kind.name()), 1.0);
        cr.class = Some(format!("{}|{}|{}|{}", T::NAME, cfg.class(), sched, pre_ratio.is_some()));
        cr
    }
}

impl Monitor for Acct {
    fn name(&self) -> &'static str {
        "acct"
    }
    fn budget(&self, ctx: &Ctx) -> u64 {
        if ctx.tier == Tier::Quick {
            2_000
        } else {
            20_000
        }
    }
    fn case(&self, ctx: &Ctx, idx: u64, st: &mut Stats) -> CaseResult {
        let mut r = Rng::derive(&[ctx.seed, idx, 0x7e57]);
        if r.bool() {
            self.case_t::<f32>(ctx, idx, st)
        } else {
            self.case_t::<f64>(ctx, idx, st)
        }
    }
}

// ==========================================================================================
// C08

pub struct Poly;

fn cheb_to_mono(coef_cheb: &[f64]) -> Vec<f64> {
    // convert a Chebyshev series to monomial coefficients
    let n = coef_cheb.len();
    let mut t_prev = vec![0.0; n];
    let mut t_cur = vec![0.0; n];
    let mut out = vec![0.0; n];
    t_prev[0] = 1.0;
    for k in 0..n {
        let t = if k == 0 {
            t_prev.clone()
        } else if k == 1 {
            t_cur = vec![0.0; n];
            t_cur[1] = 1.0;
            t_cur.clone()
        } else {
            let mut t_next = vec![0.0; n];
            for i in 0..n - 1 {
                t_next[i + 1] += 2.0 * t_cur[i];
            }
            for i in 0..n {
                t_next[i] -= t_prev[i];
            }
            t_prev = t_cur.clone();
            t_cur = t_next.clone();
            t_next
        };
        for i in 0..n {
            out[i] += coef_cheb[k] * t[i];
        }
    }
    out
}

impl Poly {
    fn case_t<T: Smp>(&self, ctx: &Ctx, idx: u64, st: &mut Stats) -> CaseResult {
        let mut rng = ctx.rng_for(idx);
        let mut gp = profile_by_name(&ctx.profile).with_kinds(&[Kind::FastIn, Kind::FastOut]);
        gp.max_channels = 1;
        let mut cfg = gen_cfg(&mut rng, &gp);
        cfg.channels = 1;
        if rng.chance(0.2) {
            // "nice" ratios are where special-case shortcuts live (unity pass-through, integer factors)
            cfg.ratio = *rng.pick(&[1.0, 1.0, 2.0, 0.5]);
            if cfg.max_rel < 1.05 && rng.bool() {
                cfg.max_rel = rng.uf(1.05, 4.0);
            }
        }
        let deg = cfg.degree.degree();
        // short streams matter: the highest-order differences of a polynomial scaled to the stream
        // length vanish like (1/length)^degree, so only short streams exercise the top coefficients
        let n_in: u64 = rng.logi(40, 20_000) as u64;
        let mode = rng.ui(0, 9); // 0..6 polynomial of admissible degree, 7 degree+1 (sensitivity), 8..9 sinusoid
        let pre_ratio = if cfg.max_rel > 1.0 && rng.chance(0.3) { Some(gen_in_range_ratio(&mut rng, &cfg)) } else { None };
        let r_eff = pre_ratio.unwrap_or(cfg.ratio);
        // 30 %: a ratio schedule (stepped and ramped changes) during the stream: every output frame must still
        // be the polynomial evaluated at its own (measured) instant, whatever the history of the ratio
        let schedule: Vec<(usize, f64, bool)> = if cfg.max_rel > 1.02 && rng.chance(0.3) {
            (0..rng.ui(1, 4))
                .map(|_| {
                    // often back to exactly the original ratio
                    let v = if rng.chance(0.4) { cfg.ratio } else { gen_in_range_ratio(&mut rng, &cfg) };
                    (rng.ui(1, 40), v, rng.bool())
                })
                .collect()
        } else {
            Vec::new()
        };
        let n_in = n_in.min((400_000.0 / (if schedule.is_empty() { r_eff } else { cfg.hi() }).max(1.0)) as u64).max(40);
        let (c, s) = (n_in as f64 / 2.0, n_in as f64 / 2.0 + 8.0);
        let (sigkind, pmax, what, pdeg);
        if mode <= 7 {
            pdeg = if mode == 7 { deg + 1 } else { rng.ui(0, deg) };
            let mut cheb = vec![0.0; pdeg + 1];
            for c in cheb.iter_mut() {
                *c = rng.uf(-1.0, 1.0);
            }
            cheb[pdeg] = if rng.bool() { 1.0 } else { -1.0 } * rng.uf(0.5, 1.0);
            let scale = *rng.pick(&[1.0, 1.0, 400.0, 1e-3]);
            for c in cheb.iter_mut() {
                *c *= scale;
            }
            let mono = cheb_to_mono(&cheb);
            pmax = cheb.iter().map(|x| x.abs()).sum::<f64>();
            what = format!("polynomial degree {} (Chebyshev coefficients {:?})", pdeg, cheb);
            sigkind = SigKind::Poly { c, s, coef: mono };
        } else {
            pdeg = 99;
            let f = rng.logf(0.002, 0.2);
            let amp = rng.uf(0.2, 1.0);
            let ph = rng.uf(0.0, 6.28);
            pmax = amp;
            what = format!("sinusoid f={} A={} phase={}", f, amp, ph);
            sigkind = SigKind::Tones(vec![(f, amp, ph)]);
        }
        let desc = J::obj()
            .with("sample", J::s(T::NAME))
            .with("cfg", cfg.json())
            .with("set_ratio_before_first_call", pre_ratio.map(J::f).unwrap_or(J::Null))
            .with("input_frames", J::Int(n_in as i128))
            .with("ratio_schedule_call_ratio_ramp", J::Arr(schedule.iter().map(|(k, v, r)| J::Arr(vec![J::u(*k), J::f(*v), J::b(*r)])).collect()))
            .with("input", J::s(&what));
        set_desc(&desc);
        let mut cr = CaseResult { desc, ..Default::default() };
        if ctx.describe {
            return cr;
        }
        let sig = Sig { seed: 0, kind: sigkind };
        // pass 1: instants from the index signal (f64; the position arithmetic is f64 for both sample types)
        // Nearest: the index signal only yields floor(instant) through the code under test itself, so the true
        // instants are measured with the Linear degree of the same variant (same position arithmetic)
        let mut cfg_inst = cfg.clone();
        if cfg.degree == Deg::Nearest {
            cfg_inst.degree = Deg::Linear;
        }
        let (mut ri, _) = match build_probed(&cfg_inst, false) {
            Ok(x) => x,
            Err(e) => {
                cr.inconclusive = Some(e);
                return cr;
            }
        };
        ri.check_alloc = false;
        let mut rv = Runner::<T>::fresh(&cfg, sig.clone()).unwrap();
        rv.check_alloc = false;
        // 10 %: the measured instance has had an earlier life and a reset(); the instant-measuring twin is fresh
        if rng.chance(0.1) {
            let s = rng.next();
            earlier_life(&mut rv, &mut Rng::new(s));
            st.add("streams_after_an_earlier_life_and_reset", 1.0);
        }
        if pre_ratio.is_none() && schedule.is_empty() && n_in % 10 < 3 {
            // set_resample_ratio_relative(1.0): by the documentation a no-op
            noop_relative(&mut rv);
        }
        if let Some(v) = pre_ratio {
            ri.step(&Op::SetRatio { v, ramp: false, rel: false });
            rv.step(&Op::SetRatio { v, ramp: false, rel: false });
        }
        let mut tspec: Vec<f64> = Vec::new();
        let (inst, vals) = if schedule.is_empty() {
            (stream(&mut ri, n_in, None, 3_000_000), stream(&mut rv, n_in, None, 3_000_000))
        } else {
            let mut dummy = Vec::new();
            (stream_sched(&mut ri, n_in, &schedule, &mut tspec), stream_sched(&mut rv, n_in, &schedule, &mut dummy))
        };
        let (inst, vals) = match (inst, vals) {
            (Ok(a), Ok(b)) => (a, b),
            _ => {
                cr.inconclusive = Some("processing error".into());
                return cr;
            }
        };
        if inst.len() != vals.len() {
            cr.viols.push(Viol::new("C08", "frame_count", format!("index-signal run produced {} frames, value run {}", inst.len(), vals.len())));
            return cr;
        }
        let nearest = cfg.degree == Deg::Nearest;
        let t = 1.0 / r_eff;
        // uniform spacing of the instants (skipping start-up)
        let mut checked = 0u64;
        let mut worst = 0.0f64;
        let mut max_err = 0.0f64;
        let mut prev_tau: Option<f64> = None;
        // f32: measured worst 2.9 eps32*max|P| over 1.6e5 runs -> 12; f64: measured 82 eps64 (accumulated position) -> 256
        let tol_val = T::EPS * pmax.max(1e-300) * if T::IS32 { 12.0 } else { 256.0 };
        for j in 0..inst.len() {
            let tau = inst[j] - 1.0;
            if tau < 4.0 || tau > n_in as f64 - 6.0 {
                prev_tau = None;
                continue;
            }
            // uniform spacing 1/ratio: always at constant ratio; under a schedule for every frame produced by a
            // call without a pending ramp (a stepped change applies from the first frame of the next chunk)
            let t = if schedule.is_empty() { t } else { tspec.get(j).copied().unwrap_or(f64::NAN) };
            if let Some(p) = prev_tau.filter(|_| t.is_finite()) {
                let d = tau - p;
                let tol = 1e-9f64.max(256.0 * ulp(tau));
                if (d - t).abs() > tol {
                    cr.viols.push(Viol::new("C08", "instants_not_uniform", format!("frame {}: spacing {} != 1/ratio {}", j, d, t)));
                    break;
                }
            }
            prev_tau = Some(tau);
            if nearest {
                // output must be the input sample at or just before the true instant
                if (tau - tau.round()).abs() < 1e-6 {
                    continue; // decision within rounding of an integer: either neighbour is legitimate
                }
                let want = sig.at(0, tau.floor() as u64);
                let got = vals[j].f64();
                checked += 1;
                if (got - T::of64(want).f64()).abs() > 0.0 {
                    cr.viols.push(Viol::new("C08", "nearest_not_the_sample_at_or_before", format!("frame {} evaluated at input time {}: output {:e} is not input sample {} = {:e}", j, tau, got, tau.floor() as u64, want)));
                    break;
                }
                continue;
            }
            let got = vals[j].f64();
            // exact value of the input function at the measured instant
            let want = match &sig.kind {
                SigKind::Poly { c, s, coef } => {
                    let u = (tau - c) / s;
                    let mut v = 0.0;
                    for k in (0..coef.len()).rev() {
                        v = v * u + coef[k];
                    }
                    v
                }
                SigKind::Tones(ts) => ts.iter().map(|(f, a, p)| a * (2.0 * std::f64::consts::PI * f * tau + p).cos()).sum(),
                _ => 0.0,
            };
            let err = (got - want).abs();
            checked += 1;
            if err > max_err {
                max_err = err;
            }
            if mode <= 6 {
                if err / tol_val > worst {
                    worst = err / tol_val;
                }
                if err > tol_val {
                    cr.viols.push(Viol::new(
                        "C08",
                        "polynomial_not_reproduced",
                        format!("frame {} at input time {}: output {:e}, polynomial value {:e}, error {:e} > {:e} (degree {} input, {:?})", j, tau, got, want, err, tol_val, pdeg, cfg.degree),
                    ));
                    break;
                }
            } else if mode >= 8 {
                if let SigKind::Tones(ts) = &sig.kind {
                    let (f, a, _) = ts[0];
                    let w = 2.0 * std::f64::consts::PI * f;
                    let bound = match cfg.degree {
                        Deg::Septic => 1.0682e-3 * a * w.powi(8),
                        Deg::Quintic => 4.8829e-3 * a * w.powi(6),
                        Deg::Cubic => 2.3438e-2 * a * w.powi(4),
                        Deg::Linear => a * w * w / 8.0,
                        Deg::Nearest => a * w,
                    } * 1.001
                        + T::EPS * a * if T::IS32 { 16.0 } else { 256.0 }
                        + 8.0 * f64::EPSILON * a * (w * n_in as f64 + 16.0); // phase rounding of generator and reference
                    if err / bound > worst {
                        worst = err / bound;
                    }
                    if err > bound {
                        cr.viols.push(Viol::new(
                            "C08",
                            "sinusoid_beyond_classical_bound",
                            format!("frame {} at input time {}: error {:e} > classical {:?} interpolation bound {:e} (f={}, A={})", j, tau, err, cfg.degree, bound, f, a),
                        ));
                        break;
                    }
                }
            }
        }
        if mode == 7 && !nearest {
            // sensitivity self-check: a degree d+1 polynomial must NOT be reproduced exactly
            st.add("sensitivity_probes", 1.0);
            if max_err > 8.0 * tol_val {
                st.add("sensitivity_probes_that_saw_an_error", 1.0);
            }
        }
        st.add("frames_checked", checked as f64);
        st.add(&format!("cases.{}.{}", cfg.kind.name(), cfg.degree.name()), 1.0);
        if !schedule.is_empty() {
            st.add("cases_with_ratio_schedule", 1.0);
        }
        st.add(match mode {
            0..=6 => "polynomial_cases",
            7 => "degree_plus_one_cases",
            _ => "sinusoid_cases",
        }, 1.0);
        if mode != 7 {
            st.max(&format!("worst_error_over_bound.{}.{}", if mode <= 6 { "polynomial" } else { "sinusoid" }, T::NAME), worst);
        }
        cr.class = if checked > 0 { Some(format!("{}|{}|{}|{}", T::NAME, cfg.class(), mode.min(8), pdeg)) } else { None };
        cr
    }
}

impl Monitor for Poly {
    fn name(&self) -> &'static str {
        "poly"
    }
    fn budget(&self, ctx: &Ctx) -> u64 {
        if ctx.tier == Tier::Quick {
            6_000
        } else {
            100_000
        }
    }
    fn case(&self, ctx: &Ctx, idx: u64, st: &mut Stats) -> CaseResult {
        let mut r = Rng::derive(&[ctx.seed, idx, 0x7e57]);
        if r.bool() {
            self.case_t::<f32>(ctx, idx, st)
        } else {
            self.case_t::<f64>(ctx, idx, st)
        }
    }
}
